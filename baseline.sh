#!/bin/bash
# Runs the repository's own test suite with all verification guards OFF (they are off unless a harness defines them).
set -e
if [ ! -f /repo/_build/build.ninja ]; then cmake -G Ninja -S /repo -B /repo/_build >/dev/null; fi
cmake --build /repo/_build -j16 >/dev/null
ctest --test-dir /repo/_build -j8 --timeout 900 "$@"
