#!/bin/bash
# Offline setup: nothing to fetch; byte-compile the engine and check the tools the checks need.
set -e
cd "$(dirname "$0")"
python3 -m py_compile engine/irparse.py engine/ir2c.py engine/pipeline.py engine/fw.py engine/checks.py run_check.py
for t in clang++-14 opt-14 cbmc gcc g++ c++filt; do command -v $t >/dev/null || { echo "missing tool $t"; exit 1; }; done
mkdir -p evidence _work
echo setup ok
