#!/usr/bin/env python3
"""Replays a recorded counterexample against the real code: rebuilds the harness with g++ from /repo's working tree,
runs it on the recorded input vector; exit 1 if the property assertion fails natively (violation reproduced)."""
import os, sys, json
sys.path.insert(0, os.path.join(os.path.dirname(os.path.abspath(__file__)), 'engine'))
import pipeline as pl

def main():
    rp = json.load(open(sys.argv[1]))
    u = pl.Unit(rp['harness'], rp['config'], defines=rp.get('defines', []))
    wd = os.path.join(pl.VERIF, '_work', 'replay'); os.makedirs(wd, exist_ok=True)
    exe = u.build_native_real(wd, rp['entry'], sanitize='--asan' in sys.argv)
    r = pl.run_native(exe, rp['inputs'])
    print('inputs:', rp['inputs']); print(r['out']); print(r.get('err', ''))
    if r['rc'] != 0:
        print('REPRODUCED on the real build (rc=%d): %s' % (r['rc'], '; '.join(a['desc'] for a in rp['failed_assertions'][:3])))
        return 1
    print('not reproduced natively; solver trace: ' + rp.get('cbmc_cmd', ''))
    return 0
if __name__ == '__main__':
    sys.exit(main())
