void writer(void); void reader(void);
int main(void) {
__CPROVER_ASYNC_1: writer();
__CPROVER_ASYNC_2: writer();
__CPROVER_ASYNC_3: reader();
  return 0;
}
