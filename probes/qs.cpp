#include "qsbr.hpp"
#include "qsbr.cpp"
extern "C" { void __CPROVER_atomic_begin(); void __CPROVER_atomic_end(); void __CPROVER_assume(bool); void __CPROVER_assert(bool, const char*); std::uint8_t nondet_u8(); }
static std::uint8_t* X;
static int started;
extern "C" void setup() { X = static_cast<std::uint8_t*>(unodb::detail::allocate_aligned(8)); *X = 42; }
extern "C" void t_writer() {
  unodb::detail::set_qsbr_per_thread_in_main_thread reg;   // registers this thread with QSBR
  __CPROVER_atomic_begin(); started++; __CPROVER_atomic_end();
  __CPROVER_assume(started == 2);                            // both registered before anything is retired
  unodb::this_thread().on_next_epoch_deallocate(X);
  unodb::this_thread().quiescent();
  unodb::this_thread().quiescent();
  unodb::this_thread().quiescent();
}
extern "C" void t_reader() {
  unodb::detail::set_qsbr_per_thread_in_main_thread reg;
  __CPROVER_atomic_begin(); started++; __CPROVER_atomic_end();
  __CPROVER_assume(started == 2);
  std::uint8_t v = *X;                                       // reference taken while registered, before own quiescent state
  __CPROVER_assert(v == 42, "retired object still readable before the reader quiesces");
  unodb::this_thread().quiescent();
  unodb::this_thread().quiescent();
}
