void setup(void); void t_get(void); void t_remove(void);
int main(void) { setup(); t_get(); t_remove(); t_get(); return 0; }
