#include "art.hpp"
extern "C" { std::uint64_t nondet_u64(); std::uint8_t nondet_u8(); void __CPROVER_assume(bool); void __CPROVER_assert(bool, const char*); }
using db_t = unodb::db<std::uint64_t, unodb::value_view>;
static const std::uint64_t KEYS[] = {0x0000, 0x0001, 0x0100};
constexpr int NK = sizeof(KEYS) / sizeof(KEYS[0]);
extern "C" int harness() {
  static db_t d;
  std::uint8_t one = 1;
  for (int i = 0; i < NK; i++) (void)d.insert(KEYS[i], unodb::value_view{reinterpret_cast<const std::byte*>(&one), 1});
  std::uint64_t from = nondet_u64();
  bool match = false;
  auto it = d.test_only_iterator();
  it.seek(unodb::detail::basic_art_key<std::uint64_t>{from}, match, true);
  // spec: first key >= from
  int e = -1; for (int i = NK - 1; i >= 0; i--) if (KEYS[i] >= from) e = i;
  __CPROVER_assert(it.valid() == (e >= 0), "seek(fwd) positions on an entry iff one >= bound exists");
  if (it.valid() && e >= 0) { unodb::key_decoder dec{it.get_key()}; std::uint64_t k; dec.decode(k);
    __CPROVER_assert(k == KEYS[e], "seek(fwd) lands on the least entry >= bound"); }
  return 0;
}
