#include "art.hpp"
extern "C" { void __CPROVER_assert(bool, const char*); std::uint64_t nondet_u64(); }
using namespace unodb; using namespace unodb::detail;
using ak = basic_art_key<std::uint64_t>;
extern "C" std::uint64_t t_bswapkey(std::uint64_t k) { ak a{k}; return a.get_u64(); }
extern "C" int t_cmp(std::uint64_t k, std::uint64_t k2) { ak a{k}; ak b{k2}; return a.cmp(b.get_key_view()); }
extern "C" unsigned t_shared(std::uint64_t k1, std::uint64_t k2, unsigned depth) {
  ak a{k1}; ak b{k2}; b.shift_right(depth);
  key_prefix<ak, in_fake_critical_section> p{a.get_key_view(), b, tree_depth<ak>{depth}};
  return p.length() * 256 + p.get_shared_length(b);
}
extern "C" int t_leafcmp(std::uint64_t k1, std::uint64_t k2) {
  static db<std::uint64_t, value_view> d;
  std::uint8_t b = 7;
  (void)d.insert(k1, value_view{reinterpret_cast<const std::byte*>(&b), 1});
  auto g = d.get(k2);
  return g.has_value() ? (int)(*g)[0] : -1;
}
