#include "optimistic_lock.hpp"
extern "C" { void __CPROVER_assert(bool, const char*); void __CPROVER_assume(bool); }
static unodb::optimistic_lock lk;
static unodb::in_critical_section<std::uint64_t> a{0}, b{0};
int writers_active;
extern "C" void writer() {
  auto rcs = lk.try_read_lock();
  if (rcs.must_restart()) return;
  unodb::optimistic_lock::write_guard g{std::move(rcs)};
  if (g.must_restart()) return;
  writers_active++;
  __CPROVER_assert(writers_active == 1, "at most one active write guard");
  a = a.load() + 1;
  b = b.load() + 1;
  writers_active--;
}
extern "C" void reader() {
  auto rcs = lk.try_read_lock();
  if (rcs.must_restart()) return;
  const auto x = a.load();
  const auto y = b.load();
  if (rcs.try_read_unlock()) __CPROVER_assert(x == y, "validated read section saw a consistent snapshot");
}
