#include <stdint.h>
#include <stdio.h>
uint64_t t_bswapkey(uint64_t); uint32_t t_cmp(uint64_t, uint64_t); uint32_t t_shared(uint64_t, uint64_t, uint32_t); uint32_t t_leafcmp(uint64_t, uint64_t);
uint64_t nondet_u64(void) { return 0; }
#ifdef __CPROVER__
#define CHECK(e, v) __CPROVER_assert((e) == (v), #e)
#else
#define CHECK(e, v) printf("%s = %llu\n", #e, (unsigned long long)(e))
#endif
int main(void) {
  CHECK(t_bswapkey(0x0102030405060708ull), 578437695752307201ull);
  CHECK(t_cmp(1, 2), 4294967295ull);
  CHECK(t_cmp(0xC000000000000000ull, 0), 1);
  CHECK(t_cmp(5, 5), 0);
  CHECK(t_shared(0x0102030405060708ull, 0x0102030405990000ull, 0), 1285);
  CHECK(t_shared(0x0102030405060708ull, 0x0102030405990000ull, 2), 771);
  CHECK(t_leafcmp(0, 0xC000000000000000ull), 4294967295ull);
  return 0;
}
