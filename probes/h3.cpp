#include "art.hpp"
extern "C" {
std::uint64_t nondet_u64();
std::uint8_t nondet_u8();
void __CPROVER_assume(bool);
void __CPROVER_assert(bool, const char*);
}
using db_t = unodb::db<std::uint64_t, unodb::value_view>;
static unodb::value_view vv(const std::uint8_t& b) { return unodb::value_view{reinterpret_cast<const std::byte*>(&b), 1}; }
#ifndef NKEYS
#define NKEYS 3
#endif
extern "C" int harness() {
  static db_t d;
  std::uint64_t k[NKEYS]; std::uint8_t v[NKEYS];
  for (int i = 0; i < NKEYS; i++) {
    k[i] = nondet_u64(); v[i] = nondet_u8();
    for (int j = 0; j < i; j++) __CPROVER_assume(k[j] != k[i]);
    bool r = d.insert(k[i], vv(v[i]));
    __CPROVER_assert(r, "insert of fresh key succeeds");
  }
  std::uint64_t q = nondet_u64();
  auto g = d.get(q);
  int idx = -1;
  for (int i = 0; i < NKEYS; i++) if (k[i] == q) idx = i;
  __CPROVER_assert(g.has_value() == (idx >= 0), "get finds iff present");
  if (g.has_value()) {
    __CPROVER_assert(g->size() == 1, "value size");
    __CPROVER_assert(static_cast<std::uint8_t>((*g)[0]) == v[idx], "value bytes");
  }
#ifdef WITNESS
  __CPROVER_assert(false, "witness: end reachable");
#endif
  return 0;
}
