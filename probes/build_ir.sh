#!/bin/bash
# usage: build_ir.sh src.cpp out.ll [extra clang flags]
src=$1; out=$2; shift 2
FLAGS="-std=c++20 -I/repo -DUNODB_DETAIL_WITH_STATS -DUNODB_SPINLOCK_LOOP_VALUE=1 -DNDEBUG -mavx2"
clang++-14 $FLAGS "$@" -O1 -Xclang -disable-llvm-passes -S -emit-llvm $src -o $out.raw || exit 1
# tag stub targets noinline so the translator can substitute models by name
python3 - $out.raw <<'PY'
import re, sys
p = sys.argv[1]; t = open(p).read()
pat = re.compile(r'^(define [^\n]*@_ZN(?:K)?5unodb6detail14basic_node_ptr[^\n(]*(?:7tag_ptr|4typeEv|3ptrI)[^\n]*\)|define [^\n]*@_ZN5unodb15qsbr_per_thread24on_next_epoch_deallocateE[^\n]*\)) ([^\n]*)\{$', re.M)
t, n = pat.subn(lambda m: m.group(1) + ' noinline ' + m.group(2).replace('alwaysinline', '') + '{', t)
sys.stderr.write('noinline-tagged %d functions\n' % n)
open(p, 'w').write(t)
PY
opt-14 -O1 -vectorize-loops=false -vectorize-slp=false -unroll-threshold=0 -S $out.raw -o $out
