#!/bin/bash
# usage: [NOINLINE_EXTRA=regex] build_ir.sh src.cpp out.ll [extra clang flags]
src=$1; out=$2; shift 2
FLAGS="-std=c++20 -I/repo -DUNODB_DETAIL_WITH_STATS -DUNODB_SPINLOCK_LOOP_VALUE=1 -DNDEBUG -mavx2"
clang++-14 $FLAGS "$@" -O1 -Xclang -disable-llvm-passes -S -emit-llvm $src -o $out.raw || exit 1
python3 - $out.raw <<'PY'
import re, sys, os
p = sys.argv[1]; lines = open(p).read().split('\n')
pats = [r'@_ZN?K?5unodb6detail14basic_node_ptr[^(]*(7tag_ptr|4typeEv|3ptrI)']
if os.environ.get('NOINLINE_EXTRA'): pats.append(os.environ['NOINLINE_EXTRA'])
n = 0
for i, l in enumerate(lines):
    if l.startswith('define ') and any(re.search(q, l) for q in pats):
        l2 = re.sub(r'\) (local_unnamed_addr |unnamed_addr )?(#\d+)', lambda m: ') ' + (m.group(1) or '') + 'noinline ' + m.group(2), l, count=1)
        if l2 == l: l2 = l[:-1] + 'noinline {'
        lines[i] = l2.replace('alwaysinline', ''); n += 1
sys.stderr.write('noinline-tagged %d functions\n' % n)
open(p, 'w').write('\n'.join(lines))
PY
opt-14 -O1 -vectorize-loops=false -vectorize-slp=false -unroll-threshold=0 -S $out.raw -o $out
