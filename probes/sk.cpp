#include "art.hpp"
extern "C" { std::uint64_t nondet_u64(); std::uint8_t nondet_u8(); void __CPROVER_assume(bool); void __CPROVER_assert(bool, const char*); }
using db_t = unodb::db<std::uint64_t, unodb::value_view>;
static const std::uint64_t KEYS[] = {0x0000, 0x0001, 0x0100, 0x0101, 0x020000};
constexpr int NK = sizeof(KEYS) / sizeof(KEYS[0]);
extern "C" int harness() {
  static db_t d;
  std::uint8_t one = 1;
  for (int i = 0; i < NK; i++) (void)d.insert(KEYS[i], unodb::value_view{reinterpret_cast<const std::byte*>(&one), 1});
  std::uint64_t from = nondet_u64();
  bool fwd = nondet_u8() & 1;
  std::uint64_t seen[NK + 1]; int n = 0;
  d.scan_from(from, [&](const unodb::visitor<db_t::iterator>& v) {
    unodb::key_decoder dec{v.get_key()}; std::uint64_t k; dec.decode(k);
    if (n < NK + 1) seen[n] = k; n++; return false; }, fwd);
  // spec
  std::uint64_t exp[NK]; int m = 0;
  if (fwd) { for (int i = 0; i < NK; i++) if (KEYS[i] >= from) exp[m++] = KEYS[i]; }
  else { for (int i = NK - 1; i >= 0; i--) if (KEYS[i] <= from) exp[m++] = KEYS[i]; }
  __CPROVER_assert(n == m, "scan_from visits exactly the entries at or beyond the bound");
  for (int i = 0; i < NK; i++) if (i < m && i < n) __CPROVER_assert(seen[i] == exp[i], "scan_from order and content");
  return 0;
}
