#include "art.hpp"
#include <cstdio>
int main(){ unodb::db<unodb::key_view, unodb::value_view> d;
 std::uint8_t k1[11] = {1,2,3,4,5,6,7,8,9,10,11}, k2[11] = {1,2,3,4,5,6,7,8,9,20,11}; std::uint8_t a=1,b=2;
 unodb::key_view v1{reinterpret_cast<const std::byte*>(k1),11}, v2{reinterpret_cast<const std::byte*>(k2),11};
 bool i1 = d.insert(v1, unodb::value_view{reinterpret_cast<const std::byte*>(&a),1});
 bool i2 = d.insert(v2, unodb::value_view{reinterpret_cast<const std::byte*>(&b),1});
 auto g1 = d.get(v1), g2 = d.get(v2);
 printf("ins %d %d get1 %d get2 %d\n", i1, i2, g1.has_value() ? (int)(*g1)[0] : -1, g2.has_value() ? (int)(*g2)[0] : -1); }
