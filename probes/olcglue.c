void setup(void); void t_get(void); void t_remove(void);
int main(void) {
  setup();
__CPROVER_ASYNC_1: t_get();
__CPROVER_ASYNC_2: t_remove();
  return 0;
}
