#include "art_common.hpp"
#include "art_internal.hpp"
extern "C" { void __CPROVER_assert(bool, const char*); void __CPROVER_assume(bool);
 std::uint64_t nondet_u64(); double nondet_double(); float nondet_float(); }
using namespace unodb;
template <class T> static int cmp_enc(T x, T y) {
  key_encoder e1, e2; e1.encode(x); e2.encode(y);
  return detail::compare(e1.get_key_view(), e2.get_key_view());
}
static int sgn(int v) { return v < 0 ? -1 : (v > 0 ? 1 : 0); }
extern "C" void h_i64() {
  std::int64_t x = (std::int64_t)nondet_u64(), y = (std::int64_t)nondet_u64();
  int c = sgn(cmp_enc(x, y));
  __CPROVER_assert(c == (x < y ? -1 : (x > y ? 1 : 0)), "int64 encoding order-preserving");
  key_encoder e; e.encode(x); __CPROVER_assert(e.size_bytes() == 8, "fixed width");
  std::int64_t d; key_decoder dec{e.get_key_view()}; dec.decode(d);
  __CPROVER_assert(d == x, "int64 round trip");
}
// total order spec on doubles: -inf < neg < -0 < +0 < pos < +inf < NaN (all NaNs equal)
static int spec_cmp(double x, double y) {
  bool nx = x != x, ny = y != y;
  if (nx || ny) return nx && ny ? 0 : (nx ? 1 : -1);
  if (x < y) return -1; if (x > y) return 1;
  // equal as IEEE: distinguish -0 / +0
  std::uint64_t bx, by; __builtin_memcpy(&bx, &x, 8); __builtin_memcpy(&by, &y, 8);
  bool sx = bx >> 63, sy = by >> 63;
  return sx == sy ? 0 : (sx ? -1 : 1);
}
extern "C" void h_f64() {
  double x = nondet_double(), y = nondet_double();
  __CPROVER_assert(sgn(cmp_enc(x, y)) == spec_cmp(x, y), "double encoding follows the documented total order");
  key_encoder e; e.encode(x); double d; key_decoder dec{e.get_key_view()}; dec.decode(d);
  std::uint64_t bx, bd; __builtin_memcpy(&bx, &x, 8); __builtin_memcpy(&bd, &d, 8);
  if (x == x) __CPROVER_assert(bd == bx, "non-NaN double round-trips bit for bit");
  else __CPROVER_assert(bd == 0x7ff8000000000000ULL, "NaN decodes to canonical quiet NaN");
}
