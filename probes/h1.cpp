#include "art.hpp"
extern "C" {
std::uint64_t nondet_u64();
std::uint8_t nondet_u8();
void __CPROVER_assume(bool);
void __CPROVER_assert(bool, const char*);
}
using db_t = unodb::db<std::uint64_t, unodb::value_view>;
static unodb::value_view vv(const std::uint8_t& b) { return unodb::value_view{reinterpret_cast<const std::byte*>(&b), 1}; }
#ifndef NKEYS
#define NKEYS 3
#endif
extern "C" int harness() {
  static db_t d;
  std::uint64_t k[NKEYS]; std::uint8_t v[NKEYS]; bool present[NKEYS];
  for (int i = 0; i < NKEYS; i++) {
    k[i] = nondet_u64(); v[i] = nondet_u8();
#ifdef LOWBYTES
    __CPROVER_assume((k[i] & ~0xFFFFULL) == 0);
#endif
    bool dup = false;
    for (int j = 0; j < i; j++) if (k[j] == k[i]) dup = true;
    bool r = d.insert(k[i], vv(v[i]));
    __CPROVER_assert(r == !dup, "insert succeeds iff key absent");
    present[i] = !dup;
  }
  std::uint64_t q = nondet_u64();
  auto g = d.get(q);
  int idx = -1;
  for (int i = 0; i < NKEYS; i++) if (present[i] && k[i] == q) idx = i;
  __CPROVER_assert(g.has_value() == (idx >= 0), "get finds iff present");
  if (g.has_value()) {
    __CPROVER_assert(g->size() == 1, "value size");
    __CPROVER_assert(static_cast<std::uint8_t>((*g)[0]) == v[idx], "value bytes");
  }
  bool rr = d.remove(q);
  __CPROVER_assert(rr == (idx >= 0), "remove succeeds iff present");
  __CPROVER_assert(!d.get(q).has_value(), "absent after remove");
  for (int i = 0; i < NKEYS; i++) if (present[i] && k[i] != q) __CPROVER_assert(d.get(k[i]).has_value(), "others kept");
#ifdef WITNESS
  __CPROVER_assert(false, "witness: end reachable");
#endif
  return 0;
}
