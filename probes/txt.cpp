#include "art_common.hpp"
#include "art_internal.hpp"
extern "C" { void __CPROVER_assert(bool, const char*); void __CPROVER_assume(bool);
 std::uint64_t nondet_u64(); std::uint8_t nondet_u8(); }
using namespace unodb;
#ifndef L
#define L 4
#endif
static std::size_t norm_len(const std::uint8_t* t, std::size_t n) { while (n > 0 && t[n-1] == 0) n--; return n; }
extern "C" void h_text() {
  std::uint8_t t1[L], t2[L];
  for (int i = 0; i < L; i++) { t1[i] = nondet_u8(); t2[i] = nondet_u8(); }
  std::size_t n1 = nondet_u64(), n2 = nondet_u64();
  __CPROVER_assume(n1 <= L && n2 <= L);
  // precondition of the property: no interior zero bytes
  std::size_t m1 = norm_len(t1, n1), m2 = norm_len(t2, n2);
  for (std::size_t i = 0; i < L; i++) { if (i < m1) __CPROVER_assume(t1[i] != 0); if (i < m2) __CPROVER_assume(t2[i] != 0); }
  key_encoder e1, e2;
  e1.encode_text(std::span<const std::byte>(reinterpret_cast<const std::byte*>(t1), n1));
  e2.encode_text(std::span<const std::byte>(reinterpret_cast<const std::byte*>(t2), n2));
  auto k1 = e1.get_key_view(), k2 = e2.get_key_view();
  __CPROVER_assert(k1.size() == m1 + 3 && k2.size() == m2 + 3, "text emits normalized bytes plus 3-byte terminator");
  // spec order: lexicographic on normalized bytes
  int spec = 0;
  for (std::size_t i = 0; i < L && spec == 0; i++) {
    if (i >= m1 || i >= m2) { spec = (m1 == m2) ? 0 : (i >= m1 ? (i >= m2 ? 0 : -1) : 1); break; }
    if (t1[i] != t2[i]) spec = t1[i] < t2[i] ? -1 : 1;
  }
  if (spec == 0 && m1 != m2) spec = m1 < m2 ? -1 : 1;
  int c = detail::compare(k1, k2);
  __CPROVER_assert((c < 0) == (spec < 0) && (c > 0) == (spec > 0), "text encoding order");
  // prefix freedom
  std::size_t ms = k1.size() < k2.size() ? k1.size() : k2.size();
  bool pre = true; for (std::size_t i = 0; i < L + 3; i++) if (i < ms && k1[i] != k2[i]) pre = false;
  __CPROVER_assert(!pre || (k1.size() == k2.size()), "no encoded text is a proper prefix of another");
}
