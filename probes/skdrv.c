#include <stdint.h>
#include <stdio.h>
#include <stdlib.h>
static uint64_t seq[8]; static int pos;
uint64_t nondet_u64(void) { return seq[pos++]; }
uint8_t nondet_u8(void) { return (uint8_t)seq[pos++]; }
uint32_t harness(void);
int main(int argc, char **argv) { for (int i = 1; i < argc; i++) seq[i-1] = strtoull(argv[i], 0, 0); harness(); puts("native ok"); return 0; }
