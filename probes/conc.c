#include <stdint.h>
static uint64_t seq[] = {0, 1, 13835058055282163712ull, 2, 5};
static int pos;
uint64_t nondet_u64(void) { return seq[pos++]; }
uint8_t nondet_u8(void) { return (uint8_t)seq[pos++]; }
