#include "olc_art.hpp"
#include "qsbr.cpp"
#include "qsbr_ptr.cpp"
extern "C" { std::uint64_t nondet_u64(); void __CPROVER_assume(bool); void __CPROVER_assert(bool, const char*); }
using db_t = unodb::olc_db<std::uint64_t, unodb::value_view>;
static db_t* dbp;
static const std::uint64_t K0 = 0x0000000000000000ULL, K1 = 0x0100000000000000ULL, K2 = 0x0100000000000001ULL;
static std::uint8_t one = 1;
extern "C" void setup() {
  static db_t d; dbp = &d;
  unodb::value_view v{reinterpret_cast<const std::byte*>(&one), 1};
  (void)d.insert(K0, v); (void)d.insert(K1, v); (void)d.insert(K2, v);
}
extern "C" void t_get() {
  auto r = dbp->get(K1);
  __CPROVER_assert(r.has_value(), "get finds a key that is present throughout");
}
extern "C" void t_remove() {
  bool r = dbp->remove(K0);
  __CPROVER_assert(r, "remove of present key succeeds");
}
