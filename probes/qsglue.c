void setup(void); void t_writer(void); void t_reader(void);
int main(void) {
  setup();
__CPROVER_ASYNC_1: t_writer();
__CPROVER_ASYNC_2: t_reader();
  return 0;
}
