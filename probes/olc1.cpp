#include "olc_art.hpp"
#include "qsbr.cpp"
#include "qsbr_ptr.cpp"
extern "C" { void __CPROVER_assume(bool); void __CPROVER_assert(bool, const char*); }
using db_t = unodb::olc_db<std::uint64_t, unodb::value_view>;
static std::uint8_t one = 1;
extern "C" void seq() {
  db_t* dbp = new (unodb::detail::allocate_aligned(sizeof(db_t), 64)) db_t; db_t& d = *dbp;
  unodb::value_view v{reinterpret_cast<const std::byte*>(&one), 1};
  bool r = d.insert(0, v);
  __CPROVER_assert(r, "insert 1");
#if NINS > 1
  r = d.insert(0x0100000000000000ULL, v);
  __CPROVER_assert(r, "insert 2");
#endif
}
