#include "art.hpp"
extern "C" { std::uint64_t nondet_u64(); std::uint8_t nondet_u8(); void __CPROVER_assume(bool); void __CPROVER_assert(bool, const char*); }
using namespace unodb;
#ifndef LEN
#define LEN 11
#endif
extern "C" void h_cmp() {
  std::uint8_t a[4], b[4];
  for (int i = 0; i < 4; i++) { a[i] = nondet_u8(); b[i] = nondet_u8(); }
  detail::basic_art_key<key_view> ka{key_view{reinterpret_cast<const std::byte*>(a), 4}}, kb{key_view{reinterpret_cast<const std::byte*>(b), 4}};
  int spec = 0; for (int i = 0; i < 4 && spec == 0; i++) if (a[i] != b[i]) spec = a[i] < b[i] ? -1 : 1;
  int c = ka.cmp(kb);
  __CPROVER_assert((c < 0) == (spec < 0) && (c > 0) == (spec > 0), "art_key<key_view>::cmp(art_key) is the byte-wise order of the key bytes");
}
extern "C" void h_kv2() {
  static db<key_view, value_view> d;
  std::uint8_t k1[LEN], k2[LEN]; std::uint8_t one = 1, two = 2;
  for (int i = 0; i < LEN; i++) { k1[i] = nondet_u8(); k2[i] = nondet_u8(); }
  bool same = true; for (int i = 0; i < LEN; i++) if (k1[i] != k2[i]) same = false;
  __CPROVER_assume(!same);   // equal-length distinct keys are prefix-free
  key_view v1{reinterpret_cast<const std::byte*>(k1), LEN}, v2{reinterpret_cast<const std::byte*>(k2), LEN};
  __CPROVER_assert(d.insert(v1, value_view{reinterpret_cast<const std::byte*>(&one), 1}), "insert k1");
  __CPROVER_assert(d.insert(v2, value_view{reinterpret_cast<const std::byte*>(&two), 1}), "insert k2");
  auto g1 = d.get(v1); auto g2 = d.get(v2);
  __CPROVER_assert(g1.has_value() && static_cast<std::uint8_t>((*g1)[0]) == 1, "get k1 returns its value");
  __CPROVER_assert(g2.has_value() && static_cast<std::uint8_t>((*g2)[0]) == 2, "get k2 returns its value");
}
