/* ---- glue appended to every generated translation unit (engine/glue.c) ----
 * CBMC mode: inputs are nondeterministic; each in_*() has a local `v` whose
 * assignments are read back from the counterexample trace, in order.
 * Native mode (translator validation): inputs come from the vector given on the
 * command line, observations are printed. */
#ifdef __CPROVER__
uint64_t nondet_uint64(void); uint32_t nondet_uint32(void); uint16_t nondet_uint16(void); uint8_t nondet_uint8(void);
uint64_t in_u64(void) { uint64_t v = nondet_uint64(); return v; }
uint32_t in_u32(void) { uint32_t v = nondet_uint32(); return v; }
uint16_t in_u16(void) { uint16_t v = nondet_uint16(); return v; }
uint8_t in_u8(void) { uint8_t v = nondet_uint8(); return v; }
void verif_observe(uint64_t x) { (void)x; }
void verif_witness(void) { __CPROVER_assert(0, "WITNESS end of harness reachable"); }
#else
#include <stdio.h>
#include <stdlib.h>
static uint64_t verif_vec[4096]; static int verif_n, verif_pos;
static uint64_t verif_next(void) { return verif_pos < verif_n ? verif_vec[verif_pos++] : 0; }
uint64_t in_u64(void) { return verif_next(); }
uint32_t in_u32(void) { return (uint32_t)verif_next(); }
uint16_t in_u16(void) { return (uint16_t)verif_next(); }
uint8_t in_u8(void) { return (uint8_t)verif_next(); }
void verif_observe(uint64_t x) { printf("OBS %llx\n", (unsigned long long)x); }
void verif_witness(void) { printf("WITNESS\n"); }
VERIF_ENTRY_PROTO;
int main(int argc, char **argv) {
  for (int i = 1; i < argc && verif_n < 4096; i++) verif_vec[verif_n++] = strtoull(argv[i], 0, 0);
  VERIF_ENTRY_CALL;
  printf("END\n");
  return 0;
}
#endif
void verif_fail_alloc_at(uint64_t k) { ir2c_alloc_count = 0; ir2c_fail_alloc_at = k; }
uint64_t verif_alloc_count(void) { return ir2c_alloc_count; }
uint64_t verif_live_allocs(void) { return ir2c_live_allocs; }
uint64_t verif_live_bytes(void) { return ir2c_live_bytes; }
uint64_t verif_mutex_held(void) { return ir2c_mutex_held; }
void verif_mutex_foreign(uint64_t on) { ir2c_mutex_foreign = on; }
void verif_yield_arm(uint64_t k) { ir2c_yield_count = 0; ir2c_yield_at = k; ir2c_yield_enabled = 1; }
void verif_yield_disarm(void) { ir2c_yield_enabled = 0; }
uint64_t verif_yield_fired(void) { return ir2c_yield_at != 0 && ir2c_yield_count >= ir2c_yield_at; }
uint64_t verif_yield_seen(void) { return ir2c_yield_count; }
