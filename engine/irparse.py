#!/usr/bin/env python3
"""Minimal parser for textual LLVM-14 IR (typed pointers) -- feasibility probe."""
import re, sys

TOK = re.compile(r'''
  (?P<ws>\s+|;[^\n]*)
 |(?P<str>c?"(?:[^"\\]|\\.)*")
 |(?P<lid>%"(?:[^"\\]|\\.)*"|%[-a-zA-Z$._0-9]+)
 |(?P<gid>@"(?:[^"\\]|\\.)*"|@[-a-zA-Z$._0-9]+)
 |(?P<meta>![-a-zA-Z$._0-9]*|!"(?:[^"\\]|\\.)*")
 |(?P<attr>\#[0-9]+)
 |(?P<comdat>\$"(?:[^"\\]|\\.)*"|\$[-a-zA-Z$._0-9]+)
 |(?P<hex>0x[KMLHR]?[0-9A-Fa-f]+)
 |(?P<float>-?[0-9]+\.[0-9]*(?:[eE][-+]?[0-9]+)?)
 |(?P<int>-?[0-9]+)
 |(?P<dots>\.\.\.)
 |(?P<word>[a-zA-Z_][-a-zA-Z_.0-9]*)
 |(?P<punct>[()\[\]{}<>,=*:|])
''', re.X)

def lex(s):
    out = []
    pos = 0
    n = len(s)
    while pos < n:
        m = TOK.match(s, pos)
        if not m:
            raise SyntaxError("lex error at %r" % s[pos:pos+40])
        pos = m.end()
        k = m.lastgroup
        if k == 'ws':
            continue
        out.append((k, m.group()))
    return out

class Ty:
    def __init__(s, kind, **kw):
        s.kind = kind
        s.__dict__.update(kw)
    def __repr__(s):
        k = s.kind
        if k == 'int': return 'i%d' % s.bits
        if k == 'ptr': return repr(s.to) + '*'
        if k == 'array': return '[%d x %r]' % (s.n, s.elem)
        if k == 'vector': return '<%d x %r>' % (s.n, s.elem)
        if k == 'named': return s.name
        if k == 'struct': return ('<{%s}>' if s.packed else '{%s}') % ', '.join(map(repr, s.fields))
        if k == 'func': return '%r (%s)' % (s.ret, ', '.join(map(repr, s.params)))
        return k

VOID = Ty('void'); LABEL = Ty('label'); META = Ty('metadata'); TOKEN = Ty('token')
def I(b): return Ty('int', bits=b)
FLOATS = {'float': 32, 'double': 64, 'half': 16, 'x86_fp80': 80, 'fp128': 128}

class Val:
    """kind: local, global, int, float, null, undef, zero, true/false, cexpr, agg, str, meta"""
    def __init__(s, kind, ty=None, **kw):
        s.kind = kind; s.ty = ty
        s.__dict__.update(kw)
    def __repr__(s):
        return 'Val(%s,%r,%s)' % (s.kind, s.ty, {k: v for k, v in s.__dict__.items() if k not in ('kind', 'ty')})

class P:
    def __init__(s, toks, mod):
        s.t = toks; s.i = 0; s.mod = mod
    def peek(s, o=0):
        return s.t[s.i + o] if s.i + o < len(s.t) else ('eof', '')
    def next(s):
        x = s.t[s.i]; s.i += 1; return x
    def at(s, v):
        return s.peek()[1] == v and s.peek()[0] in ('word', 'punct', 'dots')
    def eat(s, v):
        if s.at(v): s.i += 1; return True
        return False
    def expect(s, v):
        if not s.eat(v):
            raise SyntaxError('expected %r got %r near %r' % (v, s.peek(), s.t[max(0, s.i-8):s.i+4]))
    # ---- types
    def type(s):
        k, v = s.peek()
        if k == 'word':
            if re.fullmatch(r'i[0-9]+', v): s.i += 1; t = I(int(v[1:]))
            elif v in FLOATS: s.i += 1; t = Ty('float', name=v, bits=FLOATS[v])
            elif v == 'void': s.i += 1; t = VOID
            elif v == 'label': s.i += 1; t = LABEL
            elif v == 'metadata': s.i += 1; t = META
            elif v == 'token': s.i += 1; t = TOKEN
            elif v == 'ptr': s.i += 1; t = Ty('ptr', to=I(8))
            elif v == 'opaque': s.i += 1; t = Ty('struct', fields=None, packed=False)
            else: raise SyntaxError('type? %r' % (s.peek(),))
        elif k == 'lid':
            s.i += 1; t = Ty('named', name=v)
        elif v == '[':
            s.i += 1; n = int(s.next()[1]); s.expect('x'); e = s.type(); s.expect(']')
            t = Ty('array', n=n, elem=e)
        elif v == '<' and s.peek(1)[1] == '{':
            s.i += 2; f = s.typelist('}'); s.expect('>')
            t = Ty('struct', fields=f, packed=True)
        elif v == '<':
            s.i += 1; n = int(s.next()[1]); s.expect('x'); e = s.type(); s.expect('>')
            t = Ty('vector', n=n, elem=e)
        elif v == '{':
            s.i += 1; f = s.typelist('}')
            t = Ty('struct', fields=f, packed=False)
        else:
            raise SyntaxError('type? %r' % (s.peek(),))
        while True:
            if s.at('*'):
                s.i += 1; t = Ty('ptr', to=t)
            elif s.at('addrspace'):
                s.i += 1; s.expect('('); s.next(); s.expect(')')
            elif s.at('('):
                s.i += 1; ps = []; va = False
                while not s.at(')'):
                    if s.eat('...'): va = True
                    else: ps.append(s.type()); s.skip_param_attrs()
                    s.eat(',')
                s.expect(')')
                t = Ty('func', ret=t, params=ps, vararg=va)
            else:
                break
        return t
    def typelist(s, close):
        f = []
        while not s.at(close):
            f.append(s.type()); s.eat(',')
        s.expect(close)
        return f
    PATTR = {'noundef', 'nonnull', 'noalias', 'nocapture', 'readonly', 'readnone', 'writeonly', 'zeroext', 'signext',
             'inreg', 'returned', 'immarg', 'nest', 'nofree', 'swiftself', 'noreturn', 'nounwind', 'inalloca'}
    def skip_param_attrs(s):
        """returns dict of interesting attrs"""
        a = {}
        while True:
            k, v = s.peek()
            if k == 'word' and v in s.PATTR:
                s.i += 1; a[v] = True
            elif k == 'word' and v in ('align', 'dereferenceable', 'dereferenceable_or_null'):
                s.i += 1
                if s.eat('('): s.next(); s.expect(')')
                else: s.next()
            elif k == 'word' and v in ('sret', 'byval', 'byref', 'preallocated', 'elementtype'):
                s.i += 1
                if s.eat('('): a[v] = s.type(); s.expect(')')
                else: a[v] = True
            else:
                return a
    # ---- values
    def tv(s):
        t = s.type(); a = s.skip_param_attrs(); v = s.value(t); v.pattrs = a
        return v
    def value(s, ty):
        k, v = s.peek()
        if k == 'lid': s.i += 1; return Val('local', ty, name=v)
        if k == 'gid': s.i += 1; return Val('global', ty, name=v)
        if k == 'int': s.i += 1; return Val('int', ty, v=int(v))
        if k == 'float': s.i += 1; return Val('float', ty, v=float(v), raw=v)
        if k == 'hex': s.i += 1; return Val('float', ty, v=None, raw=v)
        if k == 'meta':
            s.i += 1
            if s.at('{'): s.skip_balanced('{', '}')
            return Val('meta', ty)
        if k == 'str':
            s.i += 1; return Val('str', ty, raw=v)
        if k == 'word':
            if v in ('true', 'false'): s.i += 1; return Val('int', ty, v=1 if v == 'true' else 0)
            if v == 'null': s.i += 1; return Val('null', ty)
            if v == 'none': s.i += 1; return Val('null', ty)
            if v in ('undef', 'poison'): s.i += 1; return Val('undef', ty)
            if v == 'zeroinitializer': s.i += 1; return Val('zero', ty)
            if v in ('getelementptr', 'bitcast', 'inttoptr', 'ptrtoint', 'trunc', 'zext', 'sext', 'add', 'sub', 'mul',
                     'and', 'or', 'xor', 'shl', 'lshr', 'ashr', 'icmp', 'select', 'addrspacecast', 'extractelement', 'insertelement'):
                return s.cexpr(ty)
            if v == 'blockaddress' or v == 'dso_local_equivalent' or v == 'no_cfi':
                raise SyntaxError('unsupported const ' + v)
        if v == '{' or (v == '<' and s.peek(1)[1] == '{'):
            packed = v == '<'
            s.i += 2 if packed else 1
            el = []
            while not s.at('}'):
                el.append(s.tv()); s.eat(',')
            s.expect('}')
            if packed: s.expect('>')
            return Val('agg', ty, elems=el)
        if v == '[':
            s.i += 1; el = []
            while not s.at(']'):
                el.append(s.tv()); s.eat(',')
            s.expect(']')
            return Val('agg', ty, elems=el)
        if v == '<':
            s.i += 1; el = []
            while not s.at('>'):
                el.append(s.tv()); s.eat(',')
            s.expect('>')
            return Val('agg', ty, elems=el)
        raise SyntaxError('value? %r near %r' % (s.peek(), s.t[max(0, s.i-8):s.i+4]))
    def cexpr(s, ty):
        op = s.next()[1]
        flags = []
        while s.peek()[0] == 'word' and s.peek()[1] in ('inbounds', 'nuw', 'nsw', 'exact', 'inrange'):
            flags.append(s.next()[1])
        pred = None
        if op == 'icmp': pass
        s.expect('(')
        if op == 'icmp': pred = s.next()[1] if False else None
        ops = []; srcty = None
        if op == 'getelementptr':
            srcty = s.type(); s.expect(',')
        while not s.at(')'):
            if s.at('to'):
                s.i += 1; s.type(); continue
            if s.peek()[0] == 'word' and s.peek()[1] == 'inrange': s.i += 1
            ops.append(s.tv()); s.eat(',')
        s.expect(')')
        return Val('cexpr', ty, op=op, ops=ops, srcty=srcty, flags=flags)
    def skip_balanced(s, o, c):
        d = 0
        while True:
            k, v = s.next()
            if k == 'punct' and v == o: d += 1
            elif k == 'punct' and v == c:
                d -= 1
                if d == 0: return

class Instr:
    def __init__(s, op, res=None, ty=None, **kw):
        s.op = op; s.res = res; s.ty = ty
        s.__dict__.update(kw)

class Func:
    pass

class Module:
    def __init__(s):
        s.types = {}; s.globals = {}; s.funcs = {}; s.aliases = {}; s.attrgroups = {}; s.order = []

LINKAGE = {'private', 'internal', 'available_externally', 'linkonce', 'weak', 'common', 'appending', 'extern_weak',
           'linkonce_odr', 'weak_odr', 'external', 'dso_local', 'dso_preemptable', 'default', 'hidden', 'protected',
           'unnamed_addr', 'local_unnamed_addr', 'externally_initialized', 'dllimport', 'dllexport'}

def split_toplevel(text):
    """yield top-level entities as text chunks"""
    lines = text.split('\n')
    i = 0
    while i < len(lines):
        l = lines[i]
        if l.startswith('define'):
            j = i
            while lines[j] != '}': j += 1
            yield 'define', '\n'.join(lines[i:j+1]); i = j + 1
        elif l.strip() == '' or l.startswith(';') or l.startswith('source_filename') or l.startswith('target') or l.startswith('$') or l.startswith('!') or l.startswith('module asm'):
            i += 1
        elif l.startswith('attributes'):
            yield 'attributes', l; i += 1
        elif l.startswith('declare'):
            yield 'declare', l; i += 1
        elif l.startswith('%'):
            yield 'type', l; i += 1
        elif l.startswith('@'):
            yield 'global', l; i += 1
        else:
            raise SyntaxError('toplevel? ' + l[:80])

def parse_fn_header(p):
    """after 'define'/'declare'"""
    f = Func()
    f.attrs = set(); f.attrgroups = []
    while p.peek()[0] == 'word' and (p.peek()[1] in LINKAGE or p.peek()[1] in ('fastcc', 'ccc', 'coldcc', 'cc')):
        p.next()
    f.retattrs = p.skip_param_attrs()
    f.ret = p.type()
    f.name = p.next()[1]
    p.expect('(')
    f.params = []; f.vararg = False
    while not p.at(')'):
        if p.eat('...'): f.vararg = True
        else:
            t = p.type(); a = p.skip_param_attrs()
            nm = None
            if p.peek()[0] == 'lid': nm = p.next()[1]
            f.params.append((t, nm, a))
        p.eat(',')
    p.expect(')')
    # trailing attrs
    while p.peek()[0] != 'eof' and not p.at('{'):
        k, v = p.next()
        if k == 'attr': f.attrgroups.append(v)
        elif k == 'word':
            f.attrs.add(v)
            if v in ('personality',): p.tv()
            if v in ('section', 'gc', 'comdat', 'align', 'prefix', 'prologue'):
                if p.at('('): p.skip_balanced('(', ')')
                elif p.peek()[0] in ('str', 'int'): p.next()
        elif k == 'meta': p.next() if p.peek()[0] == 'meta' else None
    return f

def parse_instr(p):
    res = None
    if p.peek()[0] == 'lid' and p.peek(1)[1] == '=':
        res = p.next()[1]; p.next()
    k, op = p.next()
    ins = Instr(op, res)
    def flags(*names):
        fl = []
        while p.peek()[0] == 'word' and p.peek()[1] in names: fl.append(p.next()[1])
        return fl
    FM = ('nnan', 'ninf', 'nsz', 'arcp', 'contract', 'afn', 'reassoc', 'fast')
    if op in ('add', 'sub', 'mul', 'shl', 'udiv', 'sdiv', 'urem', 'srem', 'lshr', 'ashr', 'and', 'or', 'xor',
              'fadd', 'fsub', 'fmul', 'fdiv', 'frem'):
        ins.flags = flags('nuw', 'nsw', 'exact', *FM)
        a = p.tv(); p.expect(','); b = p.value(a.ty)
        ins.ty = a.ty; ins.a = a; ins.b = b
    elif op == 'fneg':
        flags(*FM); ins.a = p.tv(); ins.ty = ins.a.ty
    elif op in ('icmp', 'fcmp'):
        flags(*FM)
        ins.pred = p.next()[1]
        a = p.tv(); p.expect(','); b = p.value(a.ty)
        ins.a = a; ins.b = b
        ins.ty = I(1) if a.ty.kind != 'vector' else Ty('vector', n=a.ty.n, elem=I(1))
    elif op in ('trunc', 'zext', 'sext', 'fptrunc', 'fpext', 'fptoui', 'fptosi', 'uitofp', 'sitofp', 'ptrtoint', 'inttoptr', 'bitcast', 'addrspacecast'):
        ins.a = p.tv(); p.expect('to'); ins.ty = p.type()
    elif op == 'select':
        flags(*FM)
        ins.c = p.tv(); p.expect(','); ins.a = p.tv(); p.expect(','); ins.b = p.tv(); ins.ty = ins.a.ty
    elif op == 'alloca':
        flags('inalloca')
        ins.aty = p.type(); ins.n = None
        while p.eat(','):
            if p.at('align'): p.next(); p.next()
            elif p.at('addrspace'): p.next(); p.skip_balanced('(', ')')
            else: ins.n = p.tv()
        ins.ty = Ty('ptr', to=ins.aty)
    elif op == 'load':
        ins.atomic = bool(flags('atomic')); ins.volatile = bool(flags('volatile'))
        ins.ty = p.type(); p.expect(','); ins.p = p.tv()
        ins.ordering = None
        if ins.atomic:
            if p.at('syncscope'): p.next(); p.skip_balanced('(', ')')
            ins.ordering = p.next()[1]
    elif op == 'store':
        ins.atomic = bool(flags('atomic')); ins.volatile = bool(flags('volatile'))
        ins.v = p.tv(); p.expect(','); ins.p = p.tv(); ins.ty = VOID
        ins.ordering = None
        if ins.atomic:
            if p.at('syncscope'): p.next(); p.skip_balanced('(', ')')
            ins.ordering = p.next()[1]
    elif op == 'fence':
        if p.at('syncscope'): p.next(); p.skip_balanced('(', ')')
        ins.ordering = p.next()[1]; ins.ty = VOID
    elif op == 'cmpxchg':
        flags('weak', 'volatile')
        ins.p = p.tv(); p.expect(','); ins.cmp = p.tv(); p.expect(','); ins.new = p.tv()
        if p.at('syncscope'): p.next(); p.skip_balanced('(', ')')
        ins.ordering = p.next()[1]; p.next()
        ins.ty = Ty('struct', fields=[ins.cmp.ty, I(1)], packed=False)
    elif op == 'atomicrmw':
        flags('volatile')
        ins.rmw = p.next()[1]
        ins.p = p.tv(); p.expect(','); ins.v = p.tv()
        if p.at('syncscope'): p.next(); p.skip_balanced('(', ')')
        ins.ordering = p.next()[1]; ins.ty = ins.v.ty
    elif op == 'getelementptr':
        ins.inbounds = bool(flags('inbounds'))
        ins.srcty = p.type(); p.expect(','); ins.p = p.tv(); ins.idx = []
        while p.eat(','):
            if p.peek()[0] == 'meta': p.i -= 1; break
            ins.idx.append(p.tv())
        ins.ty = None  # computed later
    elif op == 'br':
        if p.at('label'):
            p.next(); ins.dest = p.next()[1]; ins.cond = None
        else:
            ins.cond = p.tv(); p.expect(','); p.expect('label'); ins.t = p.next()[1]; p.expect(','); p.expect('label'); ins.f = p.next()[1]
        ins.ty = VOID
    elif op == 'switch':
        ins.v = p.tv(); p.expect(','); p.expect('label'); ins.default = p.next()[1]; p.expect('[')
        ins.cases = []
        while not p.at(']'):
            c = p.tv(); p.expect(','); p.expect('label'); ins.cases.append((c, p.next()[1]))
        p.expect(']'); ins.ty = VOID
    elif op == 'ret':
        if p.at('void'): p.next(); ins.v = None
        else: ins.v = p.tv()
        ins.ty = VOID
    elif op == 'unreachable':
        ins.ty = VOID
    elif op == 'resume':
        ins.v = p.tv(); ins.ty = VOID
    elif op == 'phi':
        flags(*FM)
        ins.ty = p.type(); ins.inc = []
        while True:
            p.expect('['); v = p.value(ins.ty); p.expect(','); l = p.next()[1]; p.expect(']')
            ins.inc.append((v, l))
            if not p.eat(','): break
            if p.peek()[0] == 'meta': p.i -= 1; break
    elif op in ('call', 'invoke') or (op in ('tail', 'musttail', 'notail') and p.at('call')):
        if op in ('tail', 'musttail', 'notail'): p.next(); op = 'call'; ins.op = 'call'
        flags(*FM)
        while p.peek()[0] == 'word' and p.peek()[1] in ('fastcc', 'ccc', 'coldcc'): p.next()
        ins.retattrs = p.skip_param_attrs()
        t = p.type()
        # t is either return type or full function type (possibly pointer)
        ins.fty = None
        if t.kind == 'func': ins.fty = t; ins.ty = t.ret
        elif t.kind == 'ptr' and t.to.kind == 'func': ins.fty = t.to; ins.ty = t.to.ret
        else: ins.ty = t
        ins.callee = p.value(None)
        p.expect('('); ins.args = []
        while not p.at(')'):
            ins.args.append(p.tv()); p.eat(',')
        p.expect(')')
        ins.attrgroups = []; ins.cattrs = set()
        while p.peek()[0] in ('attr', 'word') and not p.at('to') and not p.at('['):
            k2, v2 = p.next()
            if k2 == 'attr': ins.attrgroups.append(v2)
            else: ins.cattrs.add(v2)
        if p.at('['): p.skip_balanced('[', ']')
        if op == 'invoke':
            p.expect('to'); p.expect('label'); ins.normal = p.next()[1]; p.expect('unwind'); p.expect('label'); ins.unwind = p.next()[1]
    elif op == 'landingpad':
        ins.ty = p.type(); ins.cleanup = False; ins.clauses = []
        while True:
            if p.at('cleanup'): p.next(); ins.cleanup = True
            elif p.at('catch'): p.next(); ins.clauses.append(('catch', p.tv()))
            elif p.at('filter'): p.next(); ins.clauses.append(('filter', p.tv()))
            else: break
    elif op == 'extractvalue':
        ins.a = p.tv(); ins.idx = []
        while p.eat(','):
            if p.peek()[0] == 'meta': p.i -= 1; break
            ins.idx.append(int(p.next()[1]))
    elif op == 'insertvalue':
        ins.a = p.tv(); p.expect(','); ins.v = p.tv(); ins.idx = []
        while p.eat(','):
            if p.peek()[0] == 'meta': p.i -= 1; break
            ins.idx.append(int(p.next()[1]))
        ins.ty = ins.a.ty
    elif op == 'extractelement':
        ins.a = p.tv(); p.expect(','); ins.i = p.tv(); ins.ty = ins.a.ty.elem
    elif op == 'insertelement':
        ins.a = p.tv(); p.expect(','); ins.v = p.tv(); p.expect(','); ins.i = p.tv(); ins.ty = ins.a.ty
    elif op == 'shufflevector':
        ins.a = p.tv(); p.expect(','); ins.b = p.tv(); p.expect(','); ins.m = p.tv()
        ins.ty = Ty('vector', n=ins.m.ty.n, elem=ins.a.ty.elem)
    elif op == 'freeze':
        ins.a = p.tv(); ins.ty = ins.a.ty
    elif op == 'va_arg':
        raise SyntaxError('va_arg unsupported')
    else:
        raise SyntaxError('instr? ' + op)
    return ins

def parse_module(text):
    m = Module()
    for kind, chunk in split_toplevel(text):
        if kind == 'type':
            p = P(lex(chunk), m)
            name = p.next()[1]; p.expect('='); p.expect('type')
            m.types[name] = p.type()
        elif kind == 'attributes':
            mm = re.match(r'attributes (#\d+) = \{(.*)\}', chunk)
            m.attrgroups[mm.group(1)] = mm.group(2)
        elif kind == 'declare':
            p = P(lex(chunk), m); p.next()
            f = parse_fn_header(p); f.blocks = None
            m.funcs[f.name] = f; m.order.append(('func', f.name))
        elif kind == 'global':
            p = P(lex(chunk), m)
            name = p.next()[1]; p.expect('=')
            g = Func(); g.name = name; g.tls = False; g.external = False; g.const = False; g.init = None
            while True:
                k, v = p.peek()
                if k == 'word' and v in LINKAGE:
                    if v in ('external', 'extern_weak', 'available_externally'): g.external = True
                    p.next()
                elif k == 'word' and v == 'thread_local':
                    p.next(); g.tls = True
                    if p.at('('): p.skip_balanced('(', ')')
                elif k == 'word' and v == 'addrspace': p.next(); p.skip_balanced('(', ')')
                else: break
            kw = p.next()[1]
            if kw == 'alias' or kw == 'ifunc':
                p.type(); p.expect(',')
                tgt = p.tv()
                m.aliases[name] = tgt
                continue
            g.const = (kw == 'constant')
            g.ty = p.type()
            if p.peek()[0] != 'eof' and not p.at(','):
                g.init = p.value(g.ty); g.external = False
            m.globals[name] = g; m.order.append(('global', name))
        elif kind == 'define':
            hdr, body = chunk.split('{\n', 1) if False else (chunk[:chunk.index('{\n')] if '{\n' in chunk else chunk, None)
            # header may contain '{' only at end of first line
            first_nl = chunk.index('\n')
            hdrline = chunk[:first_nl]
            assert hdrline.rstrip().endswith('{'), hdrline[-40:]
            p = P(lex(hdrline.rstrip()[:-1]), m); p.next()
            f = parse_fn_header(p)
            f.blocks = []; cur = None
            for line in chunk[first_nl+1:].split('\n'):
                ls = line.strip()
                if ls == '' or ls == '}' or ls.startswith(';'): continue
                mm = re.match(r'^("(?:[^"\\]|\\.)*"|[-a-zA-Z$._0-9]+):', line)
                if mm and not line.startswith(' '):
                    cur = (mm.group(1), []); f.blocks.append(cur); continue
                if cur is None:
                    cur = (None, []); f.blocks.append(cur)  # implicit entry label
                toks = lex(ls)
                # strip trailing metadata attachments ", !tbaa !5"
                cut = len(toks)
                for j, (k, v) in enumerate(toks):
                    if k == 'punct' and v == ',' and j + 1 < len(toks) and toks[j+1][0] == 'meta' and toks[j+1][1] != '!' and not toks[j+1][1].startswith('!"') and re.fullmatch(r'![a-zA-Z_.][-a-zA-Z_.0-9]*', toks[j+1][1]):
                        cut = j; break
                # multi-line constructs: switch [ ... ] and landingpad clauses
                cur[1].append(toks[:cut])
            # merge continuation lines (switch cases / landingpad clauses)
            for lbl, rows in f.blocks:
                merged = []
                for r in rows:
                    first = r[0][1] if r else ''
                    if merged and (first in ('cleanup', 'catch', 'filter', ']') or (r[0][0] == 'word' and re.fullmatch(r'i[0-9]+', first) and merged[-1] and any(t[1] == 'switch' for t in merged[-1][:3]) and not any(t[1] == ']' for t in merged[-1]))
                                   or (first == 'to' and any(t[1] == 'invoke' for t in merged[-1][:4]))):
                        merged[-1] = merged[-1] + r
                    else:
                        merged.append(r)
                rows[:] = [parse_instr(P(r, m)) for r in merged]
            m.funcs[f.name] = f; m.order.append(('func', f.name))
    return m

if __name__ == '__main__':
    m = parse_module(open(sys.argv[1]).read())
    print(len(m.types), 'types', len(m.globals), 'globals', len(m.funcs), 'funcs', len(m.aliases), 'aliases')
