#!/usr/bin/env python3
"""Definition of the checks: which harness functions, under which build configurations and bounds,
decide which property."""
from fw import Query, Check
from pipeline import Unit

_units = {}


def U(src, config='base', **kw):
    u = Unit(src, config, **kw)
    if u.key not in _units:
        _units[u.key] = u
    return _units[u.key]


NOGROW = dict(stubs=['tag_ptr', 'node_type', 'node_ptr', 'lib_abort', 'enc_no_growth'], noinline=['@_ZN5unodb6detail15ensure_capacityE'])


def ENC(**kw):
    """encoder harness unit with the buffer-growth path cut by a *checked* assertion (growth itself: h_growth)"""
    return U('enc.cpp', **dict(NOGROW, **kw))


INT_TYPES = ['i8', 'i16', 'i32', 'i64', 'u8', 'u16', 'u32', 'u64']


def enc_queries(pid):
    qs = []
    enc = ENC()
    for t in INT_TYPES:
        qs.append(Query('enc-' + t, enc, 'h_' + t, unwind=26, about='all pairs of %s values (full width): order, width, equality, round trip' % t,
                        bounds={'inputs': '2 x full-width %s' % t}))
    qs.append(Query('enc-f32', enc, 'h_f32', unwind=26, about='all pairs of float bit patterns incl. +-0, +-inf, every NaN', bounds={'inputs': '2 x 32-bit patterns'}))
    qs.append(Query('enc-f64', enc, 'h_f64', unwind=26, about='all pairs of double bit patterns incl. +-0, +-inf, every NaN', bounds={'inputs': '2 x 64-bit patterns'}))
    for L, tier in ((3, 'quick'), (8, 'quick'), (16, 'quick'), (32, 'thorough'), (64, 'thorough')):
        u = ENC(defines=['TEXTLEN=%d' % L])
        qs.append(Query('enc-text-pair-%d' % L, u, 'h_text_pair', unwind=L + 5, tier=tier,
                        about='all pairs of texts of length <= %d over all 256 byte values, no interior zeros' % L,
                        bounds={'text_len_max': L}))
    bd = U('enc_bound.cpp', defines=['UNODB_DETAIL_VERIF_TEXT_SIZE_TYPE=std::uint8_t'], **NOGROW)
    us = ['m_memset.0:300', 'm_memcpy.0:300']
    qs.append(Query('enc-text-boundary', bd, 'h_text_boundary', unwind=8, unwindset=us,
                    about='pairs of texts of length maxlen-2..maxlen+2 with 4 symbolic tail bytes each (hooked 8-bit run-length type: maxlen=252)',
                    bounds={'maxlen': 252, 'symbolic_tail_bytes': 4, 'hook': 'UNODB_DETAIL_VERIF_TEXT_SIZE_TYPE=uint8_t'}))
    if pid == 'C15':
        qs.append(Query('enc-text-readlimit', bd, 'h_text_readlimit', unwind=8, unwindset=us, checks='pointer',
                        about='span claims up to maxlen+1000 bytes but the object has exactly maxlen: any read beyond maxlen is an out-of-bounds access for CBMC',
                        bounds={'maxlen': 252}))
    qs.append(Query('enc-tuple-text', enc, 'h_tuple_text', unwind=10, about='pairs of tuples (u8, text<=2, i16), all values',
                    bounds={'schema': '(u8,text<=2,i16)'}))
    qs.append(Query('enc-tuple-fixed', enc, 'h_tuple_fixed', unwind=26, about='pairs of tuples (i32, f64, u16), all values',
                    bounds={'schema': '(i32,f64,u16)'}))
    return qs


def c11():
    qs = enc_queries('C11')
    return Check('C11', 'model_checking', qs,
                 explanation='Every pair of values of each fixed-width component type is covered at full width by one SAT query per type; text pairs up to the '
                             'stated length over the full byte alphabet; tuples of four mixed components. Outside the claim: texts longer than the stated '
                             'bound except at the truncation boundary; tuples of other schemas.')


def c12():
    qs = [q for q in enc_queries('C12') if 'text-' not in q.name]
    qs.append(Query('enc-decode-all', ENC(), 'h_decode_all', unwind=26, about='one key of 22 components: every fixed-size type (i8..u64, float, double) in two orders, each followed by another component; decoded in encoding order, all values',
                    bounds={'schema': '(i8,u8,i16,u16,i32,u32,i64,u64,f32,f64) forwards, backwards, then (i8,u8)'}))
    qs.append(Query('enc-growth', U('enc.cpp'), 'h_growth', unwind=40, unwindset=['m_memcpy.0:300'], about='34 symbolic u64 components crossing the 256-byte internal buffer; reset() reuse',
                    bounds={'components': 34}, checks='pointer'))
    qs.append(Query('enc-growth-2', U('enc.cpp', defines=['NCOMP=66']), 'h_growth', unwind=70, unwindset=['m_memcpy.0:600'],
                    about='66 symbolic u64 components: the buffer grows twice (256-byte internal buffer -> 512-byte heap buffer -> 1024-byte heap buffer) while it holds data; reset() reuse',
                    bounds={'components': 66}, checks='pointer'))
    return Check('C12', 'model_checking', qs,
                 explanation='Round trip of every value of every fixed-width type (bit-exact, NaN canonicalised); widths; buffer growth across the '
                             'internal-buffer limit with all component values symbolic and a symbolic probe position; reuse after reset().')


def c15():
    qs = enc_queries('C15')
    return Check('C15', 'model_checking', qs,
                 explanation='Byte-equality iff equality after normalisation and prefix-freedom for all pairs within the bounds; '
                             'text read/emit limits at the truncation boundary.')


LOCK_EXT = ['gh_done', 'gh_snap', 'gh_acquired', 'gh_released', 'gh_set_obsolete']
MIX2 = ['mix_rc_w', 'mix_ru_w', 'mix_w_w', 'mix_rc_wo', 'mix_ru_wo', 'mix_w_wo', 'mix_rh_w', 'mix_rh_wo']
MIX22 = {'mix2_rw_ww': 'reader then writer || two writes', 'mix2_wr_wr': 'writer then reader || writer then reader', 'mix2_rw_wo': 'reader then writer || writer then unlock_and_obsolete', 'mix2_ww_wo': 'two writes || writer then unlock_and_obsolete'}
MIX3 = ['mix_rc_w_w', 'mix_ru_w_wo', 'mix_w_w_wo', 'mix_rc_ru_w', 'mix_rh_w_w', 'mix_rh_w_wo']
MIX_ABOUT = {'rc': 'reader validating with check()', 'ru': 'reader validating with try_read_unlock()', 'w': 'writer (upgrade, 2-word write, unlock)',
             'wo': 'writer ending in unlock_and_obsolete()', 'rh': 'reader re-opening a section with rehydrate_read_lock()'}


def c07():
    qs = []
    for cfg in ('base', 'debug'):
        u = U('lock.cpp', cfg, threads=True, extra_glue=['lock_glue.c'], cdefs=['IR2C_SPIN_CUT'], extern_c=LOCK_EXT)
        sfx = '' if cfg == 'base' else '-debug'
        qs.append(Query('lockword' + sfx, U('lockword.cpp', cfg), 'h_lockword', unwind=3, about='lock-word predicates/arithmetic for all 2^64 words',
                        bounds={'inputs': 'full 64-bit word'}, tier='quick' if cfg == 'base' else 'thorough'))
        for m in MIX2 + MIX3:
            parts = m.split('_')[1:]
            three = len(parts) == 3
            tier = 'quick' if (cfg == 'base' and (not three or m in ('mix_rc_w_w',))) else 'thorough'
            qs.append(Query(m + sfx, u, m, unwind=3, replay='none', tier=tier,
                            about='all SC interleavings of: ' + ' || '.join(MIX_ABOUT[p] for p in parts) + (' [assertion-enabled build: read_lock_count bookkeeping]' if cfg == 'debug' else ''),
                            bounds={'threads': len(parts), 'ops_per_thread': 1, 'memory_model': 'SC', 'spin': 'spinning executions cut (equivalent to later arrival)'}))
        for m, what in MIX22.items():
            qs.append(Query(m + sfx, u, m, unwind=3, replay='none', tier='quick' if cfg == 'base' else 'thorough',
                            about='all SC interleavings of two threads with TWO lock operations each: ' + what, bounds={'threads': 2, 'ops_per_thread': 2, 'memory_model': 'SC'}))
    return Check('C07', 'model_checking', qs,
                 assumptions=['threads: CBMC partial-order encoding, sequential consistency, every atomic access a scheduling point',
                              'a thread that would spin in try_read_lock is cut at the spin hint (assume false): the spinning reads have no effect, so the execution is equivalent to one where the thread arrives later',
                              'ghost observers (writers_active, acquisitions, obsolete) are updated in atomic steps adjacent to the lock calls (harness/lock_glue.c)',
                              'version wrap-around after 2^62 write cycles is outside the claim'],
                 explanation='One operation per thread (read section, upgrade+write+unlock, unlock_and_obsolete, rehydrate) for 2 and 3 threads, two operations per thread for 2 threads; all interleavings decided by SAT. '
                             'More than two operations per thread and more than three threads are outside the bound.')


PRELUDES = {  # name -> (number of inodes on the deepest path + leaf = descent-loop iterations, highest node type reachable by one insert)
    'leaf': (2, 1), 'i4_2': (2, 1), 'i4_3': (2, 1), 'i4_4': (2, 2), 'i16_5': (2, 2), '2lvl': (3, 1), 'collapse': (3, 1), '3lvl': (4, 1), 'sparse': (2, 1), 'deep': (3, 1)}
DBKINDS = {'db': 0, 'mutex': 1, 'olc': 2}
QUICK_TREE = {'get_deep', 'get_leaf', 'get_i4_2', 'get_i4_3', 'get_i4_4', 'get_i16_5', 'get_2lvl', 'get_collapse', 'get_3lvl', 'get_sparse',
              'ins_leaf', 'rem_leaf', 'rem_i4_2', 'ins_i4_3', 'rem_collapse', 'rem_i4_3'}


def tree_unit(kind='db', config='base', mnt=2, **kw):
    return U('tree.cpp', config, defines=['DBKIND=%d' % DBKINDS[kind]], max_node_type=mnt, **kw)


def tree_queries(kind='db', config='base', tier_all=None, only=None, quick_set=None):
    qs = []
    sfx = '' if (kind, config) == ('db', 'base') else '-%s-%s' % (kind, config)
    u1 = tree_unit(kind, config, 1)
    qs.append(Query('two-keys-get' + sfx, u1, 'h2_get', unwind=10, flags=['--slice-formula'], loop_bounds=[('::(get|insert|remove)_internal', 3), ('::try_(get|insert|remove)', 3)],
                    tier=tier_all or 'quick', about='from empty: insert(k1), insert(k2), get(q) with k1,k2,q fully symbolic 64-bit keys',
                    bounds={'symbolic_keys': 3, 'key_bits': 64, 'value_len': 1}))
    for name, (depth, mnt) in PRELUDES.items():
        if only and name not in only:
            continue
        u = tree_unit(kind, config, mnt)
        for op, what in (('get', 'get(k)'), ('ins', 'insert(k,v) then get(k) and get of every prelude key'), ('rem', 'remove(k) then get(k) and get of every prelude key')):
            h = '%s_%s' % (op, name)
            tier = tier_all or ('quick' if h in (QUICK_TREE if quick_set is None else quick_set) else 'thorough')
            qs.append(Query(h + sfx, u, h, unwind=10, flags=['--slice-formula'], loop_bounds=[('::(get|insert|remove)_internal', depth + 1), ('::try_(get|insert|remove)', depth + 1)], tier=tier,
                            about='concrete prelude "%s" then ONE %s with a fully symbolic 64-bit key (and value byte), compared with the map oracle' % (name, what),
                            bounds={'prelude': name, 'symbolic_ops': 1, 'key_bits': 64, 'value_len': 1, 'max_node_type': mnt}))
    return qs


NODE_Q = [  # (entry, unwind, tier, about)
    ('n4_find_2', 20, 'quick'), ('n4_find_3', 20, 'quick'), ('n4_find_4', 20, 'quick'), ('n4_add_2', 20, 'quick'), ('n4_add_3', 20, 'quick'),
    ('n4_rem_3_0', 20, 'quick'), ('n4_rem_4_1', 20, 'quick'), ('n4_rem_4_3', 20, 'quick'),
    ('n16_find_5', 20, 'quick'), ('n16_find_11', 20, 'quick'), ('n16_find_16', 20, 'quick'), ('n16_add_5', 20, 'quick'), ('n16_add_15', 20, 'quick'),
    ('n16_rem_6_0', 20, 'quick'), ('n16_rem_16_7', 20, 'quick'), ('n16_rem_16_15', 20, 'quick'),
    ('n48_find', 260, 'quick'), ('n48_ends', 260, 'quick'), ('n48_rem_first', 260, 'quick'), ('n48_rem_mid', 260, 'quick'),
    ('n48_add', 260, 'quick'), ('n48_step', 260, 'deep'), ('n48_bound', 260, 'deep'),     # symbolic-probe enumeration: SAT did not finish in 3400 s (final thorough run); the concrete boundary probes n48_enum_* replace them
    ('n256_find', 260, 'quick'), ('n256_ends', 260, 'quick'), ('n256_add_remove', 260, 'quick'), ('n256_step', 260, 'deep'), ('n256_bound', 260, 'deep')] + \
    [('n%s_enum_%s' % (c_, k_), 260, 'quick') for c_ in ('48', '256') for k_ in ('00', '01', '7F', '80', '81', 'FE', 'FF')]
NODE_ABOUT = {'enum': 'find_child/next/prior/gte/lte for a concrete probe byte from the boundary classes, node content a symbolic bitmap', 'find': 'find_child + begin/last/next/prior/gte/lte', 'add': 'add_to_nonfull of an absent key byte', 'rem': 'remove of one child',
              'ends': 'begin()/last()', 'step': 'next()/prior() from a symbolic position', 'bound': 'gte_key_byte()/lte_key_byte() of a symbolic probe', 'add_remove': 'add then remove'}


def node_queries(config='base', tier_all=None, only_prefix=None):
    qs = []
    u = U('node.cpp', config)
    sfx = '' if config == 'base' else '-' + config
    for entry, unwind, tier in NODE_Q:
        cls = entry.split('_')[0]
        op = '_'.join(x for x in entry.split('_')[1:] if not x.isdigit()) or 'find'
        heavy = tier in ('thorough', 'deep') or entry == 'n48_add'
        qs.append(Query('node-' + entry + sfx, u, entry, unwind=unwind, flags=['--max-field-sensitivity-array-size', '512'],
                        loop_bounds=[('^n48_add$', 20)], tier='deep' if tier == 'deep' else (tier_all or tier), timeout=3400 if heavy else None, mem_gb=40 if heavy else None, weight=4 if heavy else 1,
                        about='%s node in an arbitrary valid state (all key bytes symbolic, child count fixed by the query), %s' % (cls.upper().replace('N', 'I'), NODE_ABOUT.get(op, op)),
                        bounds={'node': cls, 'children': entry, 'key_bytes': 'all symbolic'}))
    for entry in ('n48_addslot_46', 'n48_addslot_33'):
        qs.append(Query('node-' + entry + sfx, u, entry, unwind=260, flags=['--max-field-sensitivity-array-size', '512'], checks='pointer',
                        loop_bounds=[('do_add48', 8)], tier=tier_all or 'quick', weight=2,
                        about='I48 free-slot search: %s children at concrete key bytes, two symbolic hole positions over all 48 slots, pointer/bounds checks on' % entry.split('_')[-1],
                        bounds={'node': 'n48', 'children': entry, 'holes': 'symbolic'}))
    return qs


def big_queries(kind='db', config='base', tier='quick'):
    u = U('tree.cpp', config, defines=['DBKIND=%d' % DBKINDS[kind]], max_node_type=4)
    sfx = '' if (kind, config) == ('db', 'base') else '-%s-%s' % (kind, config)
    return [Query(h + sfx, u, h, unwind=60, unwindset=['m_memset.0:2100'], flags=['--slice-formula'], tier=tier,
                  loop_bounds=[('::(get|insert|remove)_internal', 3 if not h.startswith(('deep_split_get', 'lsplit_collapse')) else 6), ('::try_(get|insert|remove)', 3 if not h.startswith(('deep_split_get', 'lsplit_collapse')) else 6), ('inode_256', 260), ('inode_48', 260), (r'^void big_get', 60)],
                  about='tree grown/shrunk through the node size classes by 17-51 concrete inserts/removes (%s), then get(k) for a fully symbolic key' % what,
                  bounds={'prelude': h, 'symbolic_ops': 1, 'key_bits': 64})
            for h, what in (('deep_split_get', 'key-prefix splits below the root at three positions and a collapse'), ('lsplit_collapse_0', 'collapse of a two-child node onto an inner child created by a leaf split (stale key bytes behind its prefix), then get/insert/remove of every key'), ('lsplit_collapse_1', 'same, prefix bytes all different'), ('lsplit_collapse_2', 'same, the collapsing node below the root with a prefix of its own'), ('big_rem48_00', 'I48 with children at the boundary key bytes 00/01/7F/80/81/FE/FF: remove of the key with byte 00, get of it, get of a second key symbolic in the child-selecting byte'), ('big_rem48_01', 'I48 with children at the boundary key bytes 00/01/7F/80/81/FE/FF: remove of the key with byte 01, get of it, get of a second key symbolic in the child-selecting byte'), ('big_rem48_7F', 'I48 with children at the boundary key bytes 00/01/7F/80/81/FE/FF: remove of the key with byte 7F, get of it, get of a second key symbolic in the child-selecting byte'), ('big_rem48_80', 'I48 with children at the boundary key bytes 00/01/7F/80/81/FE/FF: remove of the key with byte 80, get of it, get of a second key symbolic in the child-selecting byte'), ('big_rem48_81', 'I48 with children at the boundary key bytes 00/01/7F/80/81/FE/FF: remove of the key with byte 81, get of it, get of a second key symbolic in the child-selecting byte'), ('big_rem48_FE', 'I48 with children at the boundary key bytes 00/01/7F/80/81/FE/FF: remove of the key with byte FE, get of it, get of a second key symbolic in the child-selecting byte'), ('big_rem48_FF', 'I48 with children at the boundary key bytes 00/01/7F/80/81/FE/FF: remove of the key with byte FF, get of it, get of a second key symbolic in the child-selecting byte'), ('big_rem48_02', 'I48 with children at the boundary key bytes 00/01/7F/80/81/FE/FF: remove of the key with byte 02, get of it, get of a second key symbolic in the child-selecting byte'), ('big_rem256_00', 'I256 with children at the boundary key bytes 00/01/7F/80/81/FE/FF: remove of the key with byte 00, get of it, get of a second key symbolic in the child-selecting byte'), ('big_rem256_01', 'I256 with children at the boundary key bytes 00/01/7F/80/81/FE/FF: remove of the key with byte 01, get of it, get of a second key symbolic in the child-selecting byte'), ('big_rem256_7F', 'I256 with children at the boundary key bytes 00/01/7F/80/81/FE/FF: remove of the key with byte 7F, get of it, get of a second key symbolic in the child-selecting byte'), ('big_rem256_80', 'I256 with children at the boundary key bytes 00/01/7F/80/81/FE/FF: remove of the key with byte 80, get of it, get of a second key symbolic in the child-selecting byte'), ('big_rem256_81', 'I256 with children at the boundary key bytes 00/01/7F/80/81/FE/FF: remove of the key with byte 81, get of it, get of a second key symbolic in the child-selecting byte'), ('big_rem256_FE', 'I256 with children at the boundary key bytes 00/01/7F/80/81/FE/FF: remove of the key with byte FE, get of it, get of a second key symbolic in the child-selecting byte'), ('big_rem256_FF', 'I256 with children at the boundary key bytes 00/01/7F/80/81/FE/FF: remove of the key with byte FF, get of it, get of a second key symbolic in the child-selecting byte'), ('big_rem256_02', 'I256 with children at the boundary key bytes 00/01/7F/80/81/FE/FF: remove of the key with byte 02, get of it, get of a second key symbolic in the child-selecting byte'), ('big_i48', 'I4->I16->I48'), ('big_i256', '->I256'), ('big_shr16', 'I48->I16'), ('big_shr48', 'I256->I48'), ('big_shr4', 'I48->I16->I4'))]


def kv_queries(pid='C01'):
    import fw
    known, _ = fw.load_known()
    qs = []
    for L, share in ((4, None), (8, None), (11, 7)):
        u = U('kv.cpp', defines=['LEN=%d' % L] + (['SHARE_MAX=%d' % share] if share is not None else []), max_node_type=1)
        qs.append(Query('kv2-len%d' % L, u, 'h_kv2', unwind=L + 5, flags=['--slice-formula'], loop_bounds=[('::(get|insert|remove)_internal', 3)],
                        about='db<key_view>: from empty, two fully symbolic byte-string keys of length %d%s, lookups of both and of a third symbolic key' % (L, '' if share is None else ' sharing at most %d leading bytes' % share),
                        bounds={'key_len': L, 'shared_prefix_max': share if share is not None else L - 1, 'symbolic_keys': 3}))
    # reproducer of defect 3 (keys sharing 8 or more leading bytes): expected to fail while the defect exists
    u = U('kv.cpp', defines=['LEN=11'], max_node_type=1)
    kid = 'KF3@kv2-len11-anyshare'
    qs.append(Query('kv2-len11-anyshare', u, 'h_kv2', unwind=16, flags=['--slice-formula'], loop_bounds=[('::(get|insert|remove)_internal', 3)], known=kid if kid in known else None,
                    about='reproducer of known finding KF3: two 11-byte keys with an unrestricted shared prefix (>= 8 shared bytes corrupt the new I4)', bounds={'key_len': 11}))
    return qs


def view_queries():
    u = tree_unit('db', 'base', 2)
    qs = []
    for h, depth, quick, what in (('view_ins_i4_4', 2, True, 'full I4, ONE insert of any other key (growth to I16, prefix split, leaf split, duplicate)'), ('view_rem_i16_5', 2, True, 'min-size I16, ONE remove of any other key (shrink to I4)'),
                                  ('view_rem_collapse', 3, False, 'holder next to a two-child inner node, ONE remove of any other key (collapse)'), ('view_ins_collapse', 3, False, 'same tree, ONE insert of any other key'),
                                  ('view_ins_leaf', 2, False, 'root leaf, ONE insert of any other key (leaf split)')):
        qs.append(Query(h, u, h, unwind=10, checks='pointer', flags=['--slice-formula'], loop_bounds=[('::(get|insert|remove)_internal', depth + 1)], tier='quick' if quick else 'thorough', mem_gb=30, weight=2,
                        about='db: a value view taken by get() is re-read through the original pointer after %s with a fully symbolic 64-bit key; CBMC pointer checks flag a view into a freed or moved leaf' % what,
                        bounds={'symbolic_ops': 1, 'key_bits': 64}))
    return qs


def c01():
    qs = tree_queries('db', 'base') + node_queries('base') + big_queries('db', 'base') + kv_queries() + view_queries()
    qs += tree_queries('mutex', 'base', quick_set={'get_leaf', 'get_i4_3', 'get_2lvl', 'get_3lvl', 'ins_leaf', 'rem_leaf', 'rem_i4_2'})
    # OLC index, one registered thread: only the lookups fit (insert/remove with a symbolic key: > 24 GB, measured); the write paths of the OLC index run with concrete keys in C03/C04/C14
    qs += [q for q in tree_queries('olc', 'nostats', quick_set={'get_i4_3', 'get_2lvl'}) if q.entry.startswith('get_')]
    return Check('C01', 'model_checking', qs,
                 assumptions=['switch cases on node types above the stated per-query bound are replaced by assert(false) (checked cut)',
                              'tag/untag of node pointers (basic_node_ptr::tag_ptr/type/ptr) are replaced by pointer-arithmetic equivalents with an alignment assertion'],
                 explanation='L2: one inner node of each of the four size classes laid out in an arbitrary valid state (symbolic key bytes, for I48 a symbolic slot assignment, '
                             'for I256 a symbolic presence bitmap): find_child / add_to_nonfull / remove against the byte->child map. '
                             'L3: from the empty index two fully symbolic keys plus a symbolic lookup; then a catalogue of concrete trees (root leaf, I4 with 2/3/4 leaves, '
                             'min-size I16, two- and three-level trees with key prefixes, a two-child root that collapses onto an inode) on which ONE operation runs with a fully '
                             'symbolic 64-bit key, so every way a key can leave the tree (prefix split at any byte, leaf split at any depth, add, grow, duplicate; remove/shrink/collapse) '
                             'is decided for all 2^64 keys by one SAT query per (tree, operation). Histories longer than prelude + one symbolic operation, '
                             'more than one simultaneously symbolic key on a non-empty tree and symbolic-key insert/remove on the OLC index (out of memory) are outside these queries; byte-string keys: two/three symbolic equal-length keys '
                             'from empty (lengths 4, 8, 11), keys sharing 8 or more leading bytes are the known finding KF3; '
                             'the mutex index runs the same catalogue (quick: a subset), the OLC index the lookups.')


SCAN_SHAPES = {  # name -> descent iterations (inodes on the deepest path + leaf)
    'leaf': 1, 'i4_3': 2, 'i16_5': 2, '2lvl': 3, '3lvl': 4, 'fall': 4, 'fall2': 3, 'sparse': 2, 'i48': 2, 'i256': 2}
SCAN_STUBS = dict(stubs=['tag_ptr', 'node_type', 'node_ptr', 'lib_abort', 'keybuf_noop'], noinline=['@_ZN5unodb6detail10key_buffer(4push|3pop)E'])


def scan_unit(kind='db', config='base', mnt=4):
    return U('scan.cpp', config, defines=['DBKIND=%d' % DBKINDS[kind], 'UNODB_DETAIL_VERIF_FIXED_ITER_STACK=6'], max_node_type=mnt, **SCAN_STUBS)


SCAN_N = {'leaf': 1, 'i4_3': 3, 'i16_5': 5, '2lvl': 5, '3lvl': 5, 'fall': 5, 'fall2': 3, 'sparse': 3, 'i48': 20, 'i256': 51}


def scan_lb(d, n=8):
    return [('::(get|insert|remove)_internal', d + 1), (r'iterator::(try_)?(left_most|right_most)_traversal', d + 1), (r'iterator::(try_)?(next|prior|seek)', d + 2),
            (r'db<.*>::scan(_from|_range)?<', n + 2), (r'^void run_s', max(n + 2, 10)), (r'^(bool visit|void check|unsigned long it_key)', 10)]


def scan_queries(kind='db', config='base', tier_all=None):
    qs = []
    sfx = '' if (kind, config) == ('db', 'base') else '-%s-%s' % (kind, config)
    u = scan_unit(kind, config)
    T = lambda t: tier_all or t
    qs.append(Query('scan-empty' + sfx, u, 'scan_empty', unwind=10, flags=['--slice-formula'], tier=T('quick'), about='all five scan forms on the empty index, symbolic bounds'))
    for name, d in SCAN_SHAPES.items():
        for mode, what in (('scan_fwd', 'scan(fwd)'), ('scan_rev', 'scan(rev)')):
            big = name in ('i48', 'i256')
            qs.append(Query('%s_%s%s' % (mode, name, sfx), u, '%s_%s' % (mode, name), unwind=270 if big else 10, unwindset=['m_memset.0:2100'] if big else [], flags=['--slice-formula'],
                            loop_bounds=scan_lb(d, SCAN_N[name]) if (config == 'base' and not big) else [], tier=T('quick'),
                            about='%s over concrete tree "%s", symbolic halting position (1..n+1)' % (what, name), bounds={'tree': name, 'symbolic': 'halt position'}))
        for mode, what, heavy in (('seek_fwd', 'seek(k, fwd) on the iterator', 1), ('seek_rev', 'seek(k, rev)', 1), ('seek_fwd_step', 'seek(k,fwd) then next()', 2),
                                  ('seek_rev_step', 'seek(k,rev) then prior()', 2), ('from_fwd', 'scan_from(k, fwd) with symbolic halt', 3),
                                  ('from_rev', 'scan_from(k, rev) with symbolic halt', 3), ('range', 'scan_range(a, b) with symbolic halt', 4)):
            if kind == 'mutex' and mode.startswith('seek'):
                continue
            # measured feasibility (thorough run): seek 10-15 min on i4_3/i16_5/fall2/sparse; scan_from 20 min on i4_3; scan_range 13 min on the root leaf;
            # 2lvl/3lvl/fall seeks and scan_range on i4_3 exceed 40 GB or 57 min and are not part of any tier
            ok = {'seek_fwd': {'leaf', 'i4_3', 'i16_5', 'fall2', 'sparse'}, 'seek_rev': {'leaf', 'i4_3', 'i16_5', 'fall2', 'sparse'},
                  'seek_fwd_step': {'leaf', 'i4_3', 'fall2'}, 'seek_rev_step': {'leaf', 'i4_3', 'fall2'},
                  'from_fwd': {'leaf', 'i4_3'}, 'from_rev': {'leaf', 'i4_3'}, 'range': {'leaf'}}
            if name not in ok[mode]:
                continue
            # final thorough run (11233 s): every one of these except the root-leaf seeks ended in 'SAT checker ran out of memory' at the 40 GB cap or in a
            # time-out, also when run alone - they are 'deep' (manual runs only), not part of a registered tier
            tier = 'quick' if (name == 'leaf' and mode != 'range') else 'deep'
            qs.append(Query('%s_%s%s' % (mode, name, sfx), u, '%s_%s' % (mode, name), unwind=10, flags=['--slice-formula'], loop_bounds=scan_lb(d, SCAN_N[name]), tier=tier if tier == 'deep' else T(tier),
                            about='%s over concrete tree "%s" with fully symbolic 64-bit bound(s)' % (what, name), bounds={'tree': name, 'symbolic': 'bound(s) 64-bit'},
                            timeout=3400, mem_gb=40, weight=1 if tier == 'quick' else 3))
    return qs


KVS_ENTRIES = ['kvs_full', 'kvs_from_a', 'kvs_from_b', 'kvs_from_c', 'kvs_range_a', 'kvs_range_b', 'kvs_range_c', 'kvs_range_d', 'kvs_range_e', 'kvs_range_f']


def kvscan_queries():
    """byte-string keys at tree level: all five scan forms over a list of 17 bounds on a four-level tree of 4-byte keys, symbolic halting position, bounds in static / heap memory"""
    qs = []
    for kind in ('db', 'olc', 'mutex'):
        u = U('kvscan.cpp', 'base', defines=['DBKIND=%d' % DBKINDS[kind], 'UNODB_DETAIL_VERIF_FIXED_ITER_STACK=6'], max_node_type=2, **SCAN_STUBS)
        for h in KVS_ENTRIES:
            quick = kind == 'db' or h in ('kvs_full', 'kvs_from_a', 'kvs_range_b')
            qs.append(Query('kvscan-%s-%s' % (kind, h), u, h, unwind=20, object_bits=12, flags=['--slice-formula'], tier='quick' if quick else 'thorough', timeout=800,
                            about='%s<key_view>: %s on a four-level tree of six 4-byte keys; bounds from a list of 17 (stored keys, neighbours, bounds that leave the tree at every depth, smallest, largest), '
                                  'both directions, all ordered pairs for scan_range, the two bounds of a call in static and heap memory (swapped every other call), symbolic halting position; visiting-order oracle' % (kind, h),
                            bounds={'keys': 'concrete, 6 x 4 bytes', 'bounds': 'concrete list of 17', 'halt_at': 'symbolic 1..7', 'index': kind}))
    return qs


def c02():
    kc = U('keycmp.cpp')
    qs = [Query('compare', kc, 'h_compare', unwind=12, about='compare() on two buffers of symbolic length <= 4, all bytes', bounds={'len_max': 4}),
          Query('artkey-u64', kc, 'h_artkey_u64', unwind=12, about='art_key<uint64> cmp/operator[]/shift_right for all pairs of keys', bounds={'inputs': '2 x 64 bit'}),
          Query('artkey-keyview', kc, 'h_artkey_kv', unwind=12, about='art_key<key_view> cmp for byte strings of length 1..4 in two distinct buffers', bounds={'len_max': 4})]
    qs += scan_queries('db', 'base') + node_queries('base') + kvscan_queries()
    # the OLC instantiation has its own seek/next/prior (olc_art.hpp try_seek ...): constant operation sequences with all five scan forms, bounds that
    # fall off nodes and diverge inside key prefixes at and below the root, symbolic halting position, full visiting-order oracle
    uo = U('olc_dbg.cpp', 'base', defines=['UNODB_DETAIL_VERIF_FIXED_ITER_STACK=6'], max_node_type=2,
           stubs=['tag_ptr', 'node_type', 'node_ptr', 'lib_abort', 'keybuf_noop'], noinline=['@_ZN5unodb6detail10key_buffer(4push|3pop)E'], cdefs=['IR2C_NULL_GUARD'])
    for e in OLC_DBG_SEQ:
        qs.append(Query('olcseq-' + e, uo, e, unwind=14, flags=['--slice-formula'], replay='native',
                        about='olc_db, one thread: %s; visiting order compared with the sorted map; the halting position of the visitors is symbolic' % OLC_DBG_SEQ[e],
                        bounds={'sequence': 'constant', 'halt': 'symbolic 1..12', 'tree': '<= 3 inner levels, I4/I16'}))
    return Check('C02', 'model_checking', qs,
                 assumptions=['iterators are backed by the guarded hook UNODB_DETAIL_VERIF_FIXED_ITER_STACK (fixed-capacity stack, capacity 6, overflow = abort = assertion) instead of std::stack<std::deque>',
                              'iterator key_buffer push/pop are stubbed as no-ops: the buffer is write-only (get_key() reads the leaf) - checked by reading art.hpp:1345-1357',
                              'switch cases on node types above I16 are replaced by assert(false) (checked cut)'],
                 explanation='L1: comparison kernels for all inputs. L3: complete forward/reverse scans with a symbolic halting position on every catalogue shape (decided mostly by constant '
                             'propagation, the halt position by SAT); seek / scan_from / scan_range with fully symbolic 64-bit bounds on the shapes where the SAT instance fits '
                             '(root leaf in the quick tier; 3-leaf I4, the minimal fall-off-an-inner-node shape and others in the thorough tier). Outside: symbolic bounds on trees with more than '
                             'two inode levels (instance > 40 GB), symbolic bounds for byte-string keys (tree level: concrete bound list, kvscan-*); the OLC instantiation is covered by constant sequences (olcseq-*), not by symbolic bounds.')


OLC_DBG_SEQ = {
    'd_scan_then_remove': 'forward scan through an inner node, then the removals that dissolve that node',
    'd_scanrev_then_remove': 'reverse scan through an inner node, then the removals that dissolve the first inner node',
    'd_from_then_remove': 'scan_from (forward, bound not stored) through an inner node, then the removals that dissolve it',
    'd_fromrev_then_remove': 'scan_from (reverse, bound not stored) through an inner node, then the removals that dissolve it',
    'd_range_then_remove': 'ascending scan_range over two inner nodes, then removals',
    'd_rangerev_then_remove': 'descending scan_range over two inner nodes, then removals',
    'd_flat_scan_grow': 'scan of one I4, inserts that grow it to I16, reverse scan_from, removal',
    'd_deep_remove': 'remove through three inner levels, then removals that dissolve the upper nodes',
    'd_deep_get_insert': 'get and insert through three inner levels, then a removal',
    'd_deep_miss': 'failing remove/get through three inner levels, duplicate insert, removal of an absent key',
    'd_deep_scan': 'scan_from through three inner levels, removals, reverse scan',
    'd_pfx_root': 'scan_from / scan_range whose bound diverges inside the key prefix of the ROOT inner node, on either side, both directions',
    'd_pfx_below_lo': 'scan_from whose bound diverges inside the key prefix of an inner node BELOW the root, bound byte smaller than the prefix byte, both directions',
    'd_pfx_below_hi': 'scan_from whose bound diverges inside the key prefix of an inner node below the root, bound byte larger than the prefix byte, both directions',
    'd_pfx_below_range': 'scan_range with both bounds diverging inside key prefixes of inner nodes below the root, both directions',
}


def c16():
    qs = []
    QN = {'n48_addslot_46', 'n4_find_3', 'n4_find_4', 'n4_add_3', 'n4_rem_4_1', 'n16_find_5', 'n16_find_16', 'n16_add_5', 'n16_add_15', 'n16_rem_16_7', 'n48_find', 'n48_rem_mid', 'n256_find', 'n256_add_remove'}
    qs += [q for q in node_queries('base') if 'addslot_46' in q.name or q.entry in ('n16_add_15', 'n16_find_16', 'n4_add_3')]   # the AVX2 side of the comparison for the SIMD-heavy kernels
    for cfg in ('sse', 'debug', 'ssedebug'):
        for q in node_queries(cfg):
            if q.tier == 'quick' and not (q.entry in QN and cfg in ('sse', 'debug')):
                q.tier = 'thorough'
            if 'addslot' in q.entry and 'debug' in cfg:
                continue      # measured: the assertion loops of the debug build push this instance beyond 24 GB
            qs.append(q)
    QT = {'get_leaf', 'get_i4_3', 'get_i16_5', 'get_2lvl', 'get_3lvl', 'ins_leaf', 'rem_leaf', 'rem_i4_2'}
    for cfg in ('sse', 'debug', 'nostats', 'ssedebug'):
        qs += tree_queries('db', cfg, quick_set=QT if cfg != 'ssedebug' else set())
    for cfg in ('debug', 'sse'):
        for q in scan_queries('db', cfg):
            if not q.entry.startswith('scan_') and q.tier != 'deep':
                q.tier = 'thorough'
            qs.append(q)
    # assertion-enabled OLC index: operation sequences that end with every node handed back, so that the library's debug accounting
    # (read_lock_count == 0 when a node is freed) is exercised on every node a scan / point operation went through
    for cfg in ('debug', 'nsdebug'):
        ud = U('olc_dbg.cpp', cfg, defines=['UNODB_DETAIL_VERIF_FIXED_ITER_STACK=6'], max_node_type=2,
               stubs=['tag_ptr', 'node_type', 'node_ptr', 'lib_abort', 'keybuf_noop'], noinline=['@_ZN5unodb6detail10key_buffer(4push|3pop)E'],
               extra_glue=['qptr_glue.c'], extern_c=QPTR_EXT, cdefs=['IR2C_NULL_GUARD'])
        for e in OLC_DBG_SEQ:
            qs.append(Query('olcdbg-%s%s' % (e, '' if cfg == 'debug' else '-nostats'), ud, e, unwind=14, flags=['--slice-formula'], replay='native',
                            tier='quick' if cfg == 'debug' else 'thorough',
                            about='assertion-enabled olc_db, one thread: %s; then every key removed and three quiescent states so that every node is freed through the debug callback; '
                                  'the halting position of the scan visitors is symbolic' % OLC_DBG_SEQ[e],
                            bounds={'sequence': 'constant', 'halt': 'symbolic 1..12', 'tree': '<= 3 inner levels, I4/I16'}))
    return Check('C16', 'model_checking', qs,
                 assumptions=['"identical across configurations" is concluded from "each configuration equals the same harness-side oracle for all inputs within the bounds"',
                              'assertion-enabled IR: UNODB_DETAIL_ASSERT -> assert() -> __assert_fail is an assertion failure in the encoding, so a library assertion that can fire on valid use is reported',
                              'spin-wait variants differ only in the spin hint, which the encoding treats as a no-op (single-threaded) - no separate query'],
                 explanation='The C01/C02 node-level and tree-level queries are re-generated from the SSE4.1, assertion-enabled (-UNDEBUG), SSE4.1+assertions and statistics-free builds of the headers '
                             'and must satisfy the same oracles with no library assertion reachable.')


MX_HOOK = '__CPROVER_assert(ir2c_mutex_held == 1, "C13: the inner index is entered only with the index mutex held");'


def c13():
    u = U('mx.cpp', defines=['UNODB_DETAIL_VERIF_FIXED_ITER_STACK=6'], max_node_type=1,
          stubs=['tag_ptr', 'node_type', 'node_ptr', 'lib_abort', 'keybuf_noop'],
          noinline=['@_ZN5unodb6detail10key_buffer(4push|3pop)E',
                    '@_ZNK?5unodb2dbImSt4spanIKSt4byteLm18446744073709551615EEE(12get_internal|15insert_internal|15remove_internal|5clearEv|5emptyEv|4scan|9scan_from|10scan_range|\\d+get_\\w+Ev)'],
          entry_hooks=[(r'^unodb::db<.*>::(get_internal|insert_internal|remove_internal|clear|empty|scan|scan_from|scan_range|get_\w+)\b', MX_HOOK)])
    lb = [('::(get|insert|remove)_internal', 3), (r'iterator::(left_most|right_most)_traversal', 3), (r'iterator::(next|prior|seek)', 4)]
    qs = [Query('mx-' + h, u, 'mx_' + h, unwind=10, flags=['--slice-formula'], loop_bounds=lb,
                about='mutex_db over a 3-entry tree: %s with a fully symbolic key; ghost mutex state checked at every inner-index entry and every return' % h,
                bounds={'prelude': 'i4_3', 'symbolic_ops': 1, 'key_bits': 64}) for h in ('get', 'insert', 'remove', 'scan_clear', 'stats')]
    qs.append(Query('mx-contended', u, 'mx_contended', unwind=10, flags=['--slice-formula'], loop_bounds=lb,
                    about='another thread holds the index mutex (ghost flag: lock() waits = the run ends, try_lock() fails): every public method (symbolic choice of 16, symbolic key) must wait; '
                          'none may enter the inner index (entry hooks) or return',
                    bounds={'prelude': 'i4_3', 'symbolic_ops': 1, 'op_choice': 16, 'key_bits': 64}))
    SF = ['zero', 'k0', 'k0p', 'k1', 'k2', 'k2p', 'max', 'other']
    SR = ['k0_k2', 'k2_k0', 'all_up', 'all_down', 'equal', 'mid_up', 'mid_down', 'full_up', 'full_down']
    for h in ['sf_%s_%s' % (n, d) for n in SF for d in 'fr'] + ['sr_' + n for n in SR]:
        qs.append(Query('mx-' + h, u, 'mx_' + h, unwind=10, flags=['--slice-formula'], loop_bounds=lb,
                        about='mutex_db over a 3-entry tree: scan_from / scan_range with a constant bound from the boundary catalogue and a symbolic halting position; '
                              'visitor must run under the mutex, call must return with it released, visit sequence must be that of the map',
                        bounds={'prelude': 'i4_3', 'bound': 'constant (catalogue of 8 scan_from bounds x 2 directions, 9 ranges)', 'halt': 'symbolic 1..4'}))
    return Check('C13', 'model_checking', qs,
                 assumptions=['pthread_mutex_lock/unlock are modelled by a ghost owner flag with assertions "not already held" / "held on unlock" (trusted mutex semantics)',
                              'entry hooks (injected by the translator, by demangled name) assert the ghost flag at the start of db::get_internal/insert_internal/remove_internal/clear/empty/scan/scan_from/scan_range and the statistics getters',
                              'atomicity/linearizability under free-running threads is an argument from the lock discipline plus the trusted mutex, not a solver result; thread schedules are not explored'],
                 explanation='Lock discipline of every public mutex_db method for all keys: inner index only entered under the mutex, mutex released on return, '
                             'get() hands the lock to the caller exactly on a hit and the handle releases it on destruction.')


FAULT_CASES = {'leaf': 4, 'i4_3': 6, 'i4_4': 3, 'i16_5': 4, '2lvl': 6, 'collapse': 4, 'deep': 6}
FAULT_DEPTH = {'leaf': 2, 'i4_3': 2, 'i4_4': 2, 'i16_5': 2, '2lvl': 3, 'collapse': 3, 'deep': 3}


def fault_unit(kind='db', config='base'):
    return U('fault.cpp', config, defines=['DBKIND=%d' % DBKINDS[kind]], max_node_type=2)


def fault_queries(kind='db', config='base'):
    u = fault_unit(kind, config)
    sfx = '' if (kind, config) == ('db', 'base') else '-%s-%s' % (kind, config)
    qs = []
    for name, ncase in FAULT_CASES.items():
        lb = [('::(get|insert|remove)_internal', FAULT_DEPTH[name] + 2)]
        for i in range(ncase):
            for op, what in (('rins', 'insert'), ('rrem', 'remove')):
                qs.append(Query('%s_%s_%d%s' % (op, name, i, sfx), u, '%s_%s_%d' % (op, name, i), unwind=10, flags=['--paths', 'lifo'], loop_bounds=lb,
                                about='prelude "%s", %s of structural-case key #%d with the k-th allocation failing for symbolic k in 0..3 (every path decided separately), '
                                      'state compared before/after, then the retry without fault' % (name, what, i),
                                bounds={'prelude': name, 'key': 'generated structural case', 'fault_index': 'symbolic 0..3', 'faults_per_operation': 1}))
    for h in ('h_too_long_absent_0', 'h_too_long_absent_1', 'h_too_long_absent_2', 'h_too_long_present'):
        qs.append(Query(h + sfx, u, h, unwind=10, flags=['--paths', 'lifo'], loop_bounds=[('::(get|insert|remove)_internal', 4)],
                        about='insert with a value length of 2^32 / 2^32+5 / SIZE_MAX: length_error before any allocation, state unchanged', bounds={'value_len': '> 2^32-1'}))
    return qs


OLCF_QUICK = {('rins', 'leaf', 1), ('rins', 'leaf', 2), ('rins', 'i4_3', 1), ('rins', 'i4_3', 4), ('rins', 'i4_4', 0), ('rins', 'i4_4', 2), ('rins', 'deep', 1), ('rins', 'deep', 3), ('rins', '2lvl', 4),
              ('rrem', 'i16_5', 0), ('rrem', 'collapse', 0), ('rrem', 'collapse', 1), ('rrem', 'i4_3', 0), ('rrem', 'leaf', 0)}


def olcf_wrappers():
    import os
    d = os.path.join(os.path.dirname(os.path.dirname(os.path.abspath(__file__))), '_work', 'gen')
    os.makedirs(d, exist_ok=True)
    p = os.path.join(d, 'olcf_wrappers.c')
    lines = ['/* generated by engine/checks.py: one entry per (structural case, fault position) */', 'static uint64_t ir2c_fixed_k;', 'uint64_t verif_fixed_k(void) { return ir2c_fixed_k; }']
    for name, ncase in FAULT_CASES.items():
        for i in range(ncase):
            for op in ('rins', 'rrem'):
                lines.append('void %s_%s_%d(void);' % (op, name, i))
                for f in range(4):
                    lines.append('void %s_%s_%d__f%d(void) { ir2c_fixed_k = %d; %s_%s_%d(); }' % (op, name, i, f, f, op, name, i))
    txt = '\n'.join(lines) + '\n'
    if not os.path.exists(p) or open(p).read() != txt:
        open(p, 'w').write(txt)
    return p


def olc_fault_queries(config='base', tier_all=None):
    """olc_db (one registered thread): every structural case x fault position as a generated constant (the OLC index does not fold with a symbolic fault index: > 600 s)"""
    u = U('fault.cpp', config, defines=['DBKIND=2', 'FAULT_FIXED'], max_node_type=2, extra_glue=[olcf_wrappers()], extern_c=['verif_fixed_k'])
    qs = []
    for name, ncase in FAULT_CASES.items():
        for i in range(ncase):
            for op, what in (('rins', 'insert'), ('rrem', 'remove')):
                for f in range(4):
                    if op == 'rrem' and f == 3:
                        continue
                    quick = (op, name, i) in OLCF_QUICK and f > 0
                    qs.append(Query('olcf-%s_%s_%d__f%d%s' % (op, name, i, f, '' if config == 'base' else '-' + config), u, '%s_%s_%d__f%d' % (op, name, i, f), unwind=12, flags=['--slice-formula'], timeout=600,
                                    tier=tier_all or ('quick' if quick else 'thorough'), replay='none', trace=False,
                                    about='olc_db, one registered thread: prelude "%s", %s of structural-case key #%d with allocation #%d failing (0 = none): exception, unchanged entries/statistics/allocations, '
                                          'then a sweep of inserts and removes next to every key (a node or root lock left behind makes it spin past the loop bound), then the retry' % (name, what, i, f),
                                    bounds={'prelude': name, 'key': 'generated structural case', 'fault_index': f, 'faults_per_operation': 1, 'index': 'olc_db', 'threads': 1}))
    return qs


def stats_queries(kind='db', config='base'):
    u = fault_unit(kind, config)
    sfx = '' if (kind, config) == ('db', 'base') else '-%s-%s' % (kind, config)
    qs = []
    for name in FAULT_CASES:
        lb = [('::(get|insert|remove)_internal', FAULT_DEPTH[name] + 1)]
        for op, what in (('sins', 'insert'), ('srem', 'remove')):
            quick = name == 'leaf' or (name, op) == ('i4_3', 'srem')
            qs.append(Query('%s_%s%s' % (op, name, sfx), u, '%s_%s' % (op, name), unwind=10, flags=['--slice-formula'], loop_bounds=lb, tier='quick' if quick else 'thorough',
                            timeout=None if quick else 3400, mem_gb=None if quick else 40, weight=1 if quick else 4,
                            about='prelude "%s" then one %s with a fully symbolic 64-bit key: getters vs. the reference shape computed from the key set' % (name, what),
                            bounds={'prelude': name, 'key_bits': 64}))
    for h in ('clr_i4_3', 'clr_i4_3x', 'clr_i16_5', 'clr_2lvl'):
        qs.append(Query(h + sfx, u, h, unwind=10, flags=['--slice-formula'], about='clear() on a concrete tree: everything zero, every block returned'))
    ub = U('fault.cpp', config, defines=['DBKIND=%d' % DBKINDS[kind]], max_node_type=4)
    for h in ('clr_i48_hole', 'clr_i48_hole_last', 'clr_i256_hole'):
        qs.append(Query(h + sfx, ub, h, unwind=60, unwindset=['m_memset.0:2100'], flags=['--slice-formula'], loop_bounds=[('::(get|insert|remove)_internal', 4), ('delete_subtree', 260), ('basic_inode_256<.*>', 260), ('inode_256', 260)],
                        about='I48 / I256 built by 18-52 concrete inserts, one removal leaving a hole, then clear(): every block returned', bounds={'tree': 'concrete'}))
    qs.append(Query('rt_leaf' + sfx, u, 'rt_leaf', unwind=10, flags=['--slice-formula'], loop_bounds=[('::(get|insert|remove)_internal', 3)], tier='thorough', timeout=3400, mem_gb=40, weight=4,
                    about='insert(k); remove(k) with symbolic k restores all current-state getters'))
    return qs


QSBRF_FIXED = {'f_retire_1': 2, 'f_retire_2': 2, 'f_retire_1_newepoch': 2, 'f_retire_1_newepoch2': 2, 'f_resume': 3, 'f_thread_start': 4}


def qsbrf_wrappers():
    import os
    d = os.path.join(os.path.dirname(os.path.dirname(os.path.abspath(__file__))), '_work', 'gen')
    os.makedirs(d, exist_ok=True)
    p = os.path.join(d, 'qsbrf_wrappers.c')
    lines = ['/* generated by engine/checks.py */', 'static uint64_t ir2c_fixed_k;', 'uint64_t verif_fixed_k(void) { return ir2c_fixed_k; }']
    for h, hi in QSBRF_FIXED.items():
        lines.append('void %s(void);' % h)
        for f in range(hi + 1):
            lines.append('void %s__f%d(void) { ir2c_fixed_k = %d; %s(); }' % (h, f, f, h))
    txt = '\n'.join(lines) + '\n'
    if not os.path.exists(p) or open(p).read() != txt:
        open(p, 'w').write(txt)
    return p


def qsbr_fault_queries():
    hooks = dict(noinline=['@_ZN5unodb4qsbr10deallocateEPv'], entry_hooks=[(r'^unodb::qsbr::deallocate\(void\*', 'verif_on_free(v_0);')])
    u = U('qsbr_fault.cpp', 'nostats', **hooks)
    what = {'f_retire_0': 'deferred-deallocation request, nothing queued', 'f_retire_1': 'deferred-deallocation request, one request queued', 'f_retire_2': 'deferred-deallocation request, two requests queued',
            'f_retire_1_newepoch': 'deferred-deallocation request that is the first call to notice an epoch change completed by the others, requests pending in both intervals',
            'f_retire_1_newepoch2': 'same after two epoch changes (a previous-interval request is due)', 'f_resume': 'resume', 'f_thread_start': 'thread start'}
    qs = [Query('qsbr-' + h, u, h, unwind=10, checks='pointer', flags=['--paths', 'lifo'], replay='none', trace=False,
                tier='quick' if h in ('f_retire_0', 'f_thread_start') else 'thorough', timeout=None if h in ('f_retire_0', 'f_thread_start') else 3400,
                about='QSBR %s with the k-th allocation failing for symbolic k (path-wise): exception type, thread count, live allocations, retry, exactly-once after the drain' % what[h],
                bounds={'fault_index': 'symbolic', 'faults_per_operation': 1})
          for h in ('f_retire_0', 'f_retire_1', 'f_resume', 'f_thread_start')]
    # the same scenarios (and the epoch-change ones) with the fault position as a generated constant: these fold, so they fit the quick tier
    uf = U('qsbr_fault.cpp', 'nostats', defines=['FAULT_FIXED'], extra_glue=[qsbrf_wrappers()], extern_c=['verif_fixed_k'], **hooks)
    for h, hi in QSBRF_FIXED.items():
        for f in range(hi + 1):
            qs.append(Query('qsbr-%s__f%d' % (h, f), uf, '%s__f%d' % (h, f), unwind=10, checks='pointer', flags=['--slice-formula'], replay='none', trace=False, timeout=600,
                            about='QSBR %s with allocation #%d failing (0 = none): exception type, requester epoch view and pending lists unchanged, nothing executed or leaked, thread count, retry, exactly-once after the drain' % (what[h], f),
                            bounds={'fault_index': f, 'faults_per_operation': 1, 'threads': 3}))
    return qs


MUTEX_FAULT_QUICK = {'rins_i4_4_0', 'rins_leaf_1', 'rrem_i16_5_0', 'rins_deep_1', 'h_too_long_absent_0'}


def c08():
    return Check('C08', 'fault_enumeration', fault_queries('db', 'base') + qsbr_fault_queries() + olc_fault_queries() + [q for q in fault_queries('mutex', 'base') if q.entry in MUTEX_FAULT_QUICK],
                 assumptions=['allocation model: the k-th allocation (posix_memalign / operator new) since arming returns failure; one fault per operation',
                              'keys are generated structural cases (duplicate, leaf split at first/middle/last byte, add front/middle/back, prefix split, grow, shrink, collapse) - concrete - '
                              'while the fault position is symbolic; CBMC decides every path separately (--paths lifo), so no fault position within the bound is skipped',
                              'fully symbolic key x symbolic fault position in one merged query exhausts 24 GB (measured) and is outside the claim',
                              'olc_db (one registered QSBR thread): the fault position is a generated constant per query (all positions 0..3 of every case; quick tier: 14 cases x positions 1..3); mutex_db: five representative cases with a symbolic position'],
                 explanation='For each generated (tree, key, operation) and EVERY fault position k (symbolic, 0..3: beyond the number of allocations any operation here makes) the solver checks: exception type, '
                             'unchanged entries/values/statistics/live allocations after the failure, and the normal result of the retry. Over-long values: length_error with no effect.')


def c10():
    qs = stats_queries('db', 'base') + [q for q in fault_queries('db', 'base') if q.entry.startswith('r')]
    # OLC index after a concurrent phase (statistics-enabled build of the C03 scenarios that grow / shrink nodes): conservation law of the counters, leaf count
    qs += olc_queries('C10', config='base', only={'p_split_ins', 'p_split_rem', 'p_rem_split', 'p_ins_split_child', 'l_ins_ins_split', 'g_ins5_rem1', 'g_get3_ins5', 'g_ins5_ins5', 's_get2_rem5', 's_rem1_rem5', 's_rem3_rem3', 'n_ins4_ins400'})
    return Check('C10', 'model_checking', qs,
                 assumptions=['reference shape = number of inner nodes per fan-out class of the path-compressed radix tree, computed in the harness from the sorted key list (adjacent common-prefix lengths), '
                              'node sizes from the type layout (sizeof), independent of the tree code',
                              'allocation accounting: live block counter of the allocation model'],
                 explanation='After one operation with a fully symbolic key on catalogue trees (and on the generated structural cases with faults) the public getters equal the reference computed from the key set; '
                             'growth/shrink counters are monotone and move exactly with a structural change; clear() zeroes everything and returns every block; insert+remove restores the getters.', jobs=14)


QPTR_EXT = ['gh_reg_count', 'gh_reg_mult', 'gh_reg_errors', '_ZN5unodb6detail13qsbr_ptr_base19register_active_ptrEPKv', '_ZN5unodb6detail13qsbr_ptr_base21unregister_active_ptrEPKv']


def c17():
    qs = []
    for cfg, steps, tier in (('base', 2, 'quick'), ('base', 3, 'quick'), ('base', 4, 'thorough'), ('debug', 1, 'quick'), ('debug', 2, 'thorough'), ('debug', 3, 'thorough')):
        u = U('qptr.cpp', cfg, defines=['STEPS=%d' % steps], extra_glue=['qptr_glue.c'], extern_c=QPTR_EXT)
        heavy = tier == 'thorough'
        qs.append(Query('qptr-seq-%s-%d' % (cfg, steps), u, 'h_qptr_seq', unwind=14, tier=tier, replay='native' if cfg == 'base' else 'none', trace=(cfg == 'base' and steps <= 3),
                        timeout=3400 if heavy else None, mem_gb=40 if heavy else None, weight=4 if heavy else 1,
                        about='every sequence of %d operations (13 kinds, symbolic choice, operands and offsets) over 3 wrapper slots and 2 buffers; shadow raw pointers; %s' %
                              (steps, 'all observers after every step' if cfg == 'base' else 'assertion-enabled build: ghost registry == multiset of live non-null wrappers after every step'),
                        bounds={'steps': steps, 'slots': 3, 'buffers': 2, 'buffer_len': 8}))
    us = U('qptr.cpp', 'debug', defines=['STEPS=3', 'NSLOT=2', 'NBUF=1', 'BUFSZ=2'], extra_glue=['qptr_glue.c'], extern_c=QPTR_EXT)
    qs.append(Query('qptr-seq-debug-3-small', us, 'h_qptr_seq', unwind=14, replay='none', trace=False, weight=3,
                    about='assertion-enabled build: every sequence of 3 operations over 2 wrapper slots and one 2-byte buffer; ghost registry == live non-null wrappers after every step',
                    bounds={'steps': 3, 'slots': 2, 'buffers': 1, 'buffer_len': 2}))
    for cfg in ('base', 'debug'):
        u = U('qptr.cpp', cfg, defines=['STEPS=1'], extra_glue=['qptr_glue.c'], extern_c=QPTR_EXT)
        qs.append(Query('qptr-span-' + cfg, u, 'h_qptr_span', unwind=14, replay='native' if cfg == 'base' else 'none',
                        about='qsbr_ptr_span over every sub-span of an 8-byte buffer: begin/end/size/iteration, copies/moves/assignment', bounds={'buffer_len': 8}))
    # the same with wider element types: every result is in elements, never in bytes
    for cfg, elem, en in (('base', 'std::uint32_t', 'u32'), ('debug', 'std::uint64_t', 'u64')):
        u = U('qptr.cpp', cfg, defines=['STEPS=1', 'ELEM=' + elem], extra_glue=['qptr_glue.c'], extern_c=QPTR_EXT)
        qs.append(Query('qptr-span-%s-%s' % (cfg, en), u, 'h_qptr_span', unwind=14, replay='native' if cfg == 'base' else 'none',
                        about='qsbr_ptr_span<%s> over every sub-span of an 8-element buffer: begin/end/size/iteration, copies/moves/assignment' % elem, bounds={'buffer_len': 8, 'element': elem}))
    u = U('qptr.cpp', 'base', defines=['STEPS=2', 'ELEM=std::uint32_t'], extra_glue=['qptr_glue.c'], extern_c=QPTR_EXT)
    qs.append(Query('qptr-seq-base-2-u32', u, 'h_qptr_seq', unwind=14, replay='native', trace=True,
                    about='every sequence of 2 operations over qsbr_ptr<std::uint32_t> (arithmetic and differences counted in elements)', bounds={'steps': 2, 'slots': 3, 'buffers': 2, 'buffer_len': 8, 'element': 'std::uint32_t'}))
    u = U('qptr.cpp', 'debug', defines=['STEPS=1', 'ELEM=std::uint64_t'], extra_glue=['qptr_glue.c'], extern_c=QPTR_EXT)
    qs.append(Query('qptr-seq-debug-1-u64', u, 'h_qptr_seq', unwind=14, replay='none', trace=False,
                    about='assertion-enabled build, qsbr_ptr<std::uint64_t>: one symbolic operation; ghost registry == live non-null wrappers', bounds={'steps': 1, 'slots': 3, 'buffers': 2, 'buffer_len': 8, 'element': 'std::uint64_t'}))
    # the REAL registry (qsbr.cpp, std::unordered_multiset) behind the wrappers, assertion-enabled build
    ur = U('qreg.cpp', 'nsdebug', defines=['STEPS=1'])
    qs.append(Query('qreg-real-1', ur, 'h_qreg_seq', unwind=8, replay='none', trace=False, weight=2,
                    about='assertion-enabled build with the real per-thread registry: concrete prelude (two wrappers on one address, a third elsewhere), then one symbolic operation out of 7 on symbolic slots; '
                          'after every step the registry holds each address as often as live wrappers do and is empty exactly when none is alive',
                    bounds={'steps': 1, 'slots': 3, 'buffer_len': 3, 'prelude': 'constant'}))
    return Check('C17', 'model_checking', qs,
                 assumptions=['query qreg-real-1 runs the real registry; std::__detail::_Prime_rehash_policy::_M_need_rehash (compiled libstdc++) is modelled as "never rehash", which keeps the table a correct single-bucket multiset', 'all other assertion-enabled queries: the out-of-line qsbr_ptr_base::register_active_ptr/unregister_active_ptr (qsbr_ptr.cpp, which forwards to the per-thread std::unordered_multiset) are replaced by a ghost '
                              'multiset; that quiescent()/qsbr_pause()/qsbr_resume() assert exactly the emptiness of that registry is taken from reading qsbr.hpp:1392,1479,1493 and qsbr.cpp:134-148, not decided by the solver',
                              'self-assignment is excluded (the property speaks of distinct objects); pointers stay inside their buffer or one past the end'],
                 explanation='Bounded sequences (2-4 steps) of the 13 wrapper operations with symbolic choice at every step, compared with a shadow model after every step.')


OLC_SCEN = {  # scenario -> (max preemption index explored = atomic accesses of thread A's operation + margin; what it exercises)
    'p_ins_split_child': (80, 'insert into an inner node below the root whose key prefix is split (cut in place) between the read of the parent slot and the lock of the node'),
    'p_get_split_child': (45, 'reader of a leaf under an inner node below the root while its key prefix is split'),
    'p_rem_split_child': (80, 'remove under an inner node below the root while its key prefix is split'),
    'p_split_ins': (80, 'insert that splits the key prefix of the root node, restarted because another insert adds a child to that node'),
    'p_split_rem': (80, 'insert that splits the key prefix of the root node while a remove collapses that node'),
    'c_get_k1_rem_k0': (45, 'reader inside the inner node onto which a two-child root collapses'),
    'c_get_k2_rem_k0': (45, 'reader inside the inner node onto which a two-child root collapses (other leaf)'),
    'c_get_k0_rem_k1': (45, 'reader of the sibling leaf while the inner two-child node collapses onto a leaf'),
    'c_get_k2_rem_k1': (45, 'reader of the surviving leaf while its two-child parent collapses'),
    'c_rem_k1_rem_k0': (80, 'two removers: collapse onto a leaf racing with collapse of the root'),
    'c_ins_rem_k0': (80, 'insert into the inner node while the root collapses onto it'),
    'g_ins5_rem1': (80, 'insert that must grow a full I4 racing with the removal of a sibling'),
    'g_get3_ins5': (45, 'reader while the node grows I4 -> I16'),
    'g_ins5_ins5': (80, 'two inserts of the same key: exactly one succeeds'),
    's_get2_rem5': (45, 'reader while the node shrinks I16 -> I4'),
    's_rem1_rem5': (80, 'two removes at the shrink boundary'),
    's_rem3_rem3': (80, 'two removes of the same key: exactly one succeeds'),
    'l_get_ins': (45, 'reader of a root leaf while it is split'),
    'l_get_rem': (45, 'reader of a root leaf while it is removed (root replacement)'),
    'l_ins_ins_split': (80, 'two leaf splits of the root leaf'),
    'l_rem_ins': (60, 'removal of the root leaf while an insert splits it'),
    'l_rem_rem': (60, 'two removals of the only key: exactly one succeeds'),
    'l_ins_rem': (80, 'split of the root leaf while the leaf is removed'),
    'p_get_split': (45, 'reader below a key-prefix split'),
    'p_rem_split': (80, 'remove below a key-prefix split'),
    'p_get_rem_sib': (45, 'reader while the sibling is removed and the two-child root collapses onto its leaf'),
    'n_ins4_ins400': (100, 'insert growing a full inner node while its full non-root parent is grown (replaced) by another insert'),
    'n_get2_ins400': (60, 'reader three levels deep while an inner node on its path is replaced by a larger one'),
    'n_rem3_ins400': (100, 'remove three levels deep while the parent of its node is replaced'),
}
OLC_QUICK = {'C03': {'p_ins_split_child', 'c_get_k1_rem_k0', 'g_ins5_rem1', 'g_ins5_ins5', 'l_get_rem', 's_get2_rem5', 'p_rem_split'}, 'C04': {'c_get_k1_rem_k0', 'l_get_rem', 's_get2_rem5'}, 'C14': {'g_ins5_rem1', 'n_ins4_ins400', 'l_rem_ins'}, 'C10': {'g_ins5_rem1', 'p_split_ins'}}
OLC_KNOWN = {}    # (scenario, k) -> known finding id; filled from known_findings.txt ids below


def olc_wrappers():
    import os
    d = os.path.join(os.path.dirname(os.path.dirname(os.path.abspath(__file__))), '_work', 'gen')
    os.makedirs(d, exist_ok=True)
    p = os.path.join(d, 'olc_wrappers.c')
    lines = ['/* generated by engine/checks.py: one entry per (scenario, preemption index) */', 'static uint64_t ir2c_fixed_k;', 'uint64_t verif_fixed_k(void) { return ir2c_fixed_k; }']
    for s, (kmax, _) in OLC_SCEN.items():
        lines.append('void %s(void);' % s)
        for k in range(kmax + 1):
            lines.append('void %s__k%d(void) { ir2c_fixed_k = %d; %s(); }' % (s, k, k, s))
    txt = '\n'.join(lines) + '\n'
    if not os.path.exists(p) or open(p).read() != txt:
        open(p, 'w').write(txt)
    return p


def olc_queries(pid, tier_all=None, config='nostats', only=None):
    u = U('olc_conc.cpp', config, max_node_type=2, yield_in='unodb::', extra_glue=[olc_wrappers()], extern_c=['verif_fixed_k'], cdefs=['IR2C_SPIN_BLOCKS'])
    qs = []
    import fw
    known, _fixed = fw.load_known()
    kq = {i.split('@', 1)[1]: i for i, (prop, _d) in known.items() if prop == pid and '@' in i}
    for s, (kmax, what) in OLC_SCEN.items():
        if only is not None and s not in only:
            continue
        for k in range(kmax + 1):
            qs.append(Query('%s__k%d%s' % (s, k, '' if config == 'nostats' else '-' + config), u, '%s__k%d' % (s, k), unwind=20, checks='pointer', timeout=600, replay='none', trace=False, flags=['--slice-formula'],
                            tier=tier_all or ('quick' if s in OLC_QUICK[pid] else 'thorough'), known=kq.get('%s__k%d' % (s, k)),
                            about='thread A preempted before its %d-th atomic access by one complete operation of thread B: %s' % (k, what) if k else 'no preemption (B after A): ' + what,
                            bounds={'scenario': s, 'preemption_index': k, 'preemptions': 1, 'threads': 2}))
    return qs


OLC_ASSUME = ['own sequentialisation: two simulated threads in one sequential program, each with its own QSBR registration; thread A has a preemption point before EVERY atomic access (inserted by the translator '
              'in all unodb:: functions); at the chosen point thread B runs ONE complete operation (preemption bound 1; B is not preempted); sequential consistency',
              'the preemption index is enumerated exhaustively (one CBMC run per index; every run is fully decided by CBMC symbolic execution with pointer/deallocation checks; the SAT instances are trivial). '
              'A symbolic preemption index was measured out of reach: path-wise > 1200 s per scenario, merged: symbolic execution does not finish in 900 s',
              'scenario list: concrete trees and keys, one per structural change (collapse onto inner node / onto leaf, growth, shrink, leaf split, root replacement, prefix split) x {reader, second writer, same-key race}',
              'if the preempting operation would have to wait for a lock held by the preempted thread, the schedule "B completes at this point" does not exist; the run ends there (B waits until A resumes = a later preemption point or B after A, which are explored)']


def c03():
    return Check('C03', 'exploration', olc_queries('C03'), assumptions=OLC_ASSUME,
                 explanation='Results of two overlapping operations (and the final content) must equal those of one of their two sequential orders, for every preemption point of thread A. '
                             'Not covered: more than one preemption, three or more threads, interleavings in which the preempting operation is itself preempted, weak memory.', jobs=14)


def c04():
    u = U('olc_conc.cpp', 'nostats', max_node_type=2, yield_in='unodb::', extra_glue=[olc_wrappers()], extern_c=['verif_fixed_k'], cdefs=['IR2C_SPIN_BLOCKS'])
    extra = [Query('v_view_two_exits', u, 'v_view_two_exits', unwind=20, checks='pointer', replay='none', trace=False, flags=['--slice-formula'],
                   about='three QSBR registrations, call-level schedule: reader keeps a view; the remover exits with the request pending; a third thread that never quiesced exits; the view is re-read before the reader quiesces',
                   bounds={'threads': 3, 'preemptions': 0})]
    extra += retire_queries()
    return Check('C04', 'exploration', olc_queries('C04') + extra, assumptions=OLC_ASSUME + ['CBMC pointer checks: any dereference of a deallocated or out-of-bounds object on any explored schedule fails; '
                 'the value view obtained by a preempted get() is re-read after the competing remove and before the reader quiesces; after both threads quiesced twice nothing retired may remain allocated (live block count)'],
                 explanation='Same schedules as C03 with the real QSBR code (two registrations): no access to reclaimed memory, views stay valid until the quiescent state.', jobs=14)


def c14():
    scans = scanc_queries(only={'sc_rev_rem_mid'}, tier_all='quick') + [q for q in scanc_queries(tier_all='thorough') if not q.name.startswith('sc_rev_rem_mid__')]
    return Check('C14', 'exploration', olc_queries('C14') + olc_fault_queries() + scans, assumptions=OLC_ASSUME + ['allocation failures (the C08 clause of the property): every structural case x every allocation of an insert/remove on the olc_db fails in turn '
                 '(one registered thread, fault position enumerated); after the exception the same sweep must complete','after every schedule a sweep (get of every key, insert+remove next to every key) must complete within the unwinding bound of the restart loops: '
                 'a lock left held makes the sweep spin past the bound, which is reported'],
                 explanation='No lock left held after any explored schedule; wait cycles among three or more threads are outside the bound (deadlock-freedom proper is not decided).', jobs=14)


QSBR_SCEN = {  # scenario -> (max preemption index, what)
    'q_leave_orphan': (60, 'a thread leaves (advancing the epoch) while a departed thread has an orphaned request and a third thread has not quiesced since the retire'),
    'q_leave_orphan4': (60, 'same with four threads and two earlier departures'),
    'q_epoch_vs_2pause': (60, 'the last quiescent state of an epoch (epoch change, orphan ageing) preempted by two departures that orphan requests'),
    'q_epoch_vs_2pause_prev': (60, 'epoch change preempted by two departures holding previous-interval requests while an older orphaned list is aged (tail-append fallback of the orphan hand-over)'),
    'q_epoch_vs_pause': (60, 'epoch change preempted by one departure with pending requests; three-round bound'),
    'q_2retire_new_epoch': (40, 'three retires by one thread after an epoch change completed by the others and before its own next quiescent state; none may be lost'),
    'q_pause_vs_retire': (60, 'a departure that advances the epoch preempted by retires of the others'),
    'q_pause_vs_q': (60, 'a departure preempted by quiescent states of the others; three-round bound'),
    'q_pause_vs_pause': (60, 'two departures with pending current-interval requests pushing onto the same orphan list (CAS retry)'),
    'q_pause_vs_pause_prev': (60, 'two departures with pending previous-interval requests pushing onto the same orphan list'),
    'q_retire_vs_epoch': (40, 'a retire preempted by an epoch change completed by the others'),
    'q_resume_vs_q': (40, 'a resume (re-registration) preempted by quiescent states of the others'),
    'q_resume_vs_retire': (40, 'a resume preempted by a retire and quiescent states'),
    'q_q_vs_pause': (60, 'a quiescent state preempted by a departure with pending requests'),
    'q_leave_cas_retry': (60, 'a leaver that advances the epoch whose state-word CAS fails because an already-quiesced thread leaves in the window; an orphaned current-interval request must be aged once, not twice'),
    'q_leave_cas_retry4': (60, 'same with four threads (the thread leaving in the window is not the retirer)'),
    'q_q_vs_resume': (60, 'a quiescent state preempted by a resume and a retire'),
}
QSBR_QUICK = {'q_leave_cas_retry', 'q_2retire_new_epoch', 'q_leave_orphan', 'q_pause_vs_pause', 'q_epoch_vs_2pause_prev', 'q_pause_vs_retire', 'q_resume_vs_q', 'q_q_vs_pause'}


def qsbr_wrappers():
    import os
    d = os.path.join(os.path.dirname(os.path.dirname(os.path.abspath(__file__))), '_work', 'gen')
    os.makedirs(d, exist_ok=True)
    p = os.path.join(d, 'qsbr_wrappers.c')
    lines = ['/* generated by engine/checks.py */', 'static uint64_t ir2c_fixed_k;', 'uint64_t verif_fixed_k(void) { return ir2c_fixed_k; }']
    for s, (kmax, _) in QSBR_SCEN.items():
        lines.append('void %s(void);' % s)
        for k in range(kmax + 1):
            lines.append('void %s__k%d(void) { ir2c_fixed_k = %d; %s(); }' % (s, k, k, s))
    txt = '\n'.join(lines) + '\n'
    if not os.path.exists(p) or open(p).read() != txt:
        open(p, 'w').write(txt)
    return p


def qsbr_queries(pid, tier_all=None):
    qs = []
    for cfg in ('nostats', 'nsdebug'):
        u = U('qsbr_conc.cpp', cfg, yield_in='unodb::', extra_glue=[qsbr_wrappers()], extern_c=['verif_fixed_k'], noinline=['@_ZN5unodb4qsbr10deallocateEPv'],
              entry_hooks=[(r'^unodb::qsbr::deallocate\(void\*', 'verif_on_free(v_0);')])
        for s, (kmax, what) in QSBR_SCEN.items():
            for k in range(kmax + 1):
                quick = cfg == 'nostats' and s in QSBR_QUICK
                qs.append(Query('%s__k%d%s' % (s, k, '' if cfg == 'nostats' else '-dbg'), u, '%s__k%d' % (s, k), unwind=10, checks='pointer', replay='none', trace=False, flags=['--slice-formula'],
                                tier=tier_all or ('quick' if quick else 'thorough'),
                                about=('the call of thread A preempted before its %d-th atomic access by the script of the other threads: %s' % (k, what)) if k else 'no preemption: ' + what,
                                bounds={'scenario': s, 'preemption_index': k, 'preemptions': 1, 'threads': '3-4', 'assertions': cfg == 'nsdebug'}))
    return qs


def qstate_queries():
    qs = []
    for cfg in ('nostats', 'nsdebug'):
        u = U('qstate.cpp', cfg)
        for h in ('h_state_getters', 'h_state_inc_dec', 'h_state_epoch'):
            qs.append(Query('%s-%s' % (h[2:], cfg), u, h, unwind=5, about='QSBR state word transition functions for ALL 64-bit words satisfying the invariant' + (' (library assertions enabled)' if cfg == 'nsdebug' else ''),
                            bounds={'inputs': 'full 64-bit word'}))
    return qs


QSBR_ASSUME = ['own sequentialisation: 3-4 simulated threads (one qsbr_per_thread each) in one sequential program; thread A\'s call has a preemption point before EVERY atomic access of unodb:: code; at the chosen point '
               'the other threads run a scripted sequence of complete calls (preemption bound 1); sequential consistency; the preemption index is enumerated exhaustively, each run decided by CBMC symbolic execution '
               '(pointer/deallocation checks on). A symbolic call-level program (3 threads, 2-3 steps, merged) exhausts 24 GB - measured - and is not part of the claim',
               'ghost bookkeeping: a retired block waits for every thread other than the requester that was registered (not paused) when the request was made; a thread stops being waited for when it starts a quiescent(), '
               'pause or exit call; every free performed by QSBR is intercepted by an assertion injected at the entry of qsbr::deallocate(void*)',
               'statistics-free build (the Boost.Accumulators statistics are not encoded); exit is modelled by pause (what the destructor does)',
               'scenario list, not all programs: see QSBR_SCEN in engine/checks.py']


RETIRE_HOOKS = dict(noinline=['@_ZN5unodb4qsbr10deallocateEPv', '@_ZN5unodb6detail12free_alignedEPv'],
                    entry_hooks=[(r'^unodb::qsbr::deallocate\(void\*', 'verif_on_qsbr_free(v_0);'), (r'^unodb::detail::free_aligned\(void\*', 'verif_on_node_free(v_0);')])


def retire_queries():
    qs = []
    for n, tier, t in ((17, 'quick', None), (49, 'quick', None)):
        u = U('olc_retire.cpp', 'base', defines=['NKEYS=%d' % n], **RETIRE_HOOKS)
        qs.append(Query('r_chain_%d' % n, u, 'r_chain', unwind=260, checks='pointer', replay='none', trace=False, flags=['--slice-formula'], tier=tier, weight=2, object_bits=12,
                        about='olc_db with two QSBR registrations, no preemption: one node grown through %s by %d inserts and shrunk back by %d removes; frees observed at '
                              'detail::free_aligned and qsbr::deallocate: none during an operation, each unlinked node exactly once after both threads quiesced; value byte symbolic' %
                              ('I4 -> I16 -> I48' if n == 17 else 'I4 -> I16 -> I48 -> I256', n, n),
                        bounds={'keys': n, 'threads_registered': 2, 'preemptions': 0}))
    return qs


def c05():
    return Check('C05', 'exploration', qstate_queries() + qsbr_queries('C05'), assumptions=QSBR_ASSUME,
                 explanation='L1: state-word arithmetic for all words (SAT). Scenarios: no free while a thread registered at request time has yet to quiesce/pause/exit, for every preemption point of the racing call.', jobs=14)


def c06():
    return Check('C06', 'exploration', qstate_queries() + qsbr_queries('C06'), assumptions=QSBR_ASSUME,
                 explanation='Exactly-once execution of every deferred deallocation after the drain, thread-count getter vs ghost count at every call boundary, three-round bound, empty lists after the drain, for every preemption point.', jobs=14)


SCANC_SCEN = {  # scenario -> (max preemption index, what)
    'sc_fwd_rem_mid': (120, 'forward scan of one I4 while an entry is removed'),
    'sc_fwd_ins_grow': (120, 'forward scan while an insert grows the node I4 -> I16'),
    'sc_rev_rem_mid': (120, 'reverse scan of one I4 while an entry is removed'),
    'sc_from_fwd_rem': (160, 'scan_from (forward, bound not stored) in a two-level tree while an inner node on the path collapses'),
    'sc_from_rev_ins': (160, 'scan_from (reverse) in a two-level tree while a key is inserted behind the bound'),
    'sc_range_rem_leaf': (160, 'scan_range in a two-level tree while the last leaf under the root is removed'),
    'sc_from_flat_ins_low': (80, 'scan_from (forward, bound byte unmapped) of one I4 while a key behind the scanner is inserted; node version then equals the parent version saved at seek time'),
    'sc_from_flat_rem_low': (80, 'scan_from (forward, bound byte unmapped) of one I4 while the key behind the scanner is removed'),
    'sc_from_rev_flat_ins_high': (80, 'scan_from (reverse, bound byte unmapped) of one I4 while a key behind the scanner (above it) is inserted'),
    'sc_fwd_two_rem_inner': (160, 'forward scan of a two-level tree while the first inner node collapses onto its remaining leaf'),
}
SCANC_QUICK = {'sc_rev_rem_mid', 'sc_fwd_two_rem_inner', 'sc_from_flat_ins_low'}


def scanc_wrappers():
    import os
    d = os.path.join(os.path.dirname(os.path.dirname(os.path.abspath(__file__))), '_work', 'gen')
    os.makedirs(d, exist_ok=True)
    p = os.path.join(d, 'scanc_wrappers.c')
    lines = ['/* generated by engine/checks.py */', 'static uint64_t ir2c_fixed_k;', 'uint64_t verif_fixed_k(void) { return ir2c_fixed_k; }']
    for s, (kmax, _) in SCANC_SCEN.items():
        lines.append('void %s(void);' % s)
        for k in range(kmax + 1):
            lines.append('void %s__k%d(void) { ir2c_fixed_k = %d; %s(); }' % (s, k, k, s))
    txt = '\n'.join(lines) + '\n'
    if not os.path.exists(p) or open(p).read() != txt:
        open(p, 'w').write(txt)
    return p


def scanc_queries(only=None, tier_all=None):
    u = U('olc_scan.cpp', 'nostats', defines=['UNODB_DETAIL_VERIF_FIXED_ITER_STACK=6', 'KMAX=400'], max_node_type=2, yield_in='unodb::', extra_glue=[scanc_wrappers()], extern_c=['verif_fixed_k'],
          cdefs=['IR2C_SPIN_BLOCKS'], stubs=['tag_ptr', 'node_type', 'node_ptr', 'lib_abort', 'keybuf_noop'], noinline=['@_ZN5unodb6detail10key_buffer(4push|3pop)E'])
    qs = []
    for s, (kmax, what) in SCANC_SCEN.items():
        if only is not None and s not in only:
            continue
        for k in range(kmax + 1):
            qs.append(Query('%s__k%d' % (s, k), u, '%s__k%d' % (s, k), unwind=20, checks='pointer', replay='none', trace=False, flags=['--slice-formula'], timeout=600,
                            tier=tier_all or ('quick' if s in SCANC_QUICK else 'thorough'),
                            about=('scanner preempted before its %d-th atomic access by one complete operation of the writer: %s' % (k, what)) if k else 'no overlap: ' + what,
                            bounds={'scenario': s, 'preemption_index': k, 'preemptions': 1, 'threads': 2}))
    return qs


def c09():
    qs = scanc_queries()
    return Check('C09', 'exploration', qs,
                 assumptions=OLC_ASSUME + ['iterators on the guarded fixed-capacity stack hook; write-only key_buffer stubbed; all values of a key are equal in these scenarios, so "a value its key held at some moment" is the value byte derived from the key',
                                           'one writer operation per scan; the writer is not preempted; scans of 4-5 entries'],
                 explanation='For every preemption point of a scan (scan, scan_from, scan_range; both directions) one complete insert or remove of another thread: strictly monotone order, interval, no key absent throughout, '
                             'every entry present throughout delivered exactly once. Not covered: two or more writer operations per scan, two scanners, more than one preemption.', jobs=14)


REGISTRY = {'C09': c09, 'C05': c05, 'C06': c06, 'C03': c03, 'C04': c04, 'C14': c14, 'C17': c17, 'C08': c08, 'C10': c10, 'C13': c13, 'C16': c16, 'C02': c02, 'C01': c01, 'C07': c07, 'C11': c11, 'C12': c12, 'C15': c15}


def get(pid):
    return REGISTRY[pid]()
