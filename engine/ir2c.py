#!/usr/bin/env python3
"""LLVM-14 IR -> C (for CBMC).  Feasibility probe.  All pointers are uint8_t*; memory is byte-addressed."""
import re, sys, argparse
from irparse import *

def cname(n):
    n = n[1:] if n[0] in '%@' else n
    if n.startswith('"'): n = n[1:-1]
    return re.sub(r'[^A-Za-z0-9_]', lambda m: '_%02x' % ord(m.group()) if m.group() != '.' else '_', n)

class Ctx:
    def __init__(s, mod, opts):
        s.m = mod; s.o = opts
        s.aggdefs = {}   # key -> (cname, def text)
        s.aggorder = []
        s.helpers = set(); s.bytes_types = set()
        s.intwidths = set()
    # ---------- layout
    def res(s, t):
        while t.kind == 'named':
            t = s.m.types[t.name]
        return t
    def size_align(s, t):
        t = s.res(t); k = t.kind
        if k == 'int':
            b = (t.bits + 7) // 8
            a = 1
            while a < b and a < 8: a *= 2
            sz = ((b + a - 1) // a) * a
            if t.bits == 128: return 16, 16
            return sz, a
        if k == 'float':
            return {16: (2, 2), 32: (4, 4), 64: (8, 8), 80: (16, 16), 128: (16, 16)}[t.bits]
        if k == 'ptr': return 8, 8
        if k == 'array':
            es, ea = s.size_align(t.elem); return es * t.n, ea
        if k == 'vector':
            eb = s.res(t.elem).bits if s.res(t.elem).kind != 'ptr' else 64
            b = (eb * t.n + 7) // 8
            a = 1
            while a < b: a *= 2
            return a, a
        if k == 'struct':
            if t.fields is None: return 0, 1
            offs, sz, al = s.struct_layout(t); return sz, al
        raise Exception('size of ' + repr(t))
    def struct_layout(s, t):
        off = 0; al = 1; offs = []
        for f in t.fields:
            fs, fa = s.size_align(f)
            if t.packed: fa = 1
            off = (off + fa - 1) // fa * fa
            offs.append(off); off += fs; al = max(al, fa)
        off = (off + al - 1) // al * al
        return offs, off, al
    # ---------- C types
    def cty(s, t):
        t0 = t; t = s.res(t); k = t.kind
        if k == 'void': return 'void'
        if k == 'int':
            if t.bits == 1: return 'u1'
            if t.bits in (8, 16, 32, 64): return 'uint%d_t' % t.bits
            s.intwidths.add(t.bits); return 'u%d' % t.bits
        if k == 'float':
            return {32: 'float', 64: 'double', 80: 'long double'}[t.bits]
        if k == 'ptr': return 'ptr'
        if k in ('struct', 'array', 'vector'):
            return s.aggty(t)
        raise Exception('cty ' + repr(t))
    def scty(s, t):
        """signed C type for int"""
        t = s.res(t)
        if t.bits in (8, 16, 32, 64): return 'int%d_t' % t.bits
        s.intwidths.add(t.bits); return 's%d' % t.bits
    def aggty(s, t):
        key = repr(s.canon(t))
        if key in s.aggdefs: return s.aggdefs[key][0]
        nm = 'agg%d' % len(s.aggdefs)
        s.aggdefs[key] = (nm, None)
        k = t.kind
        if k == 'array':
            d = 'typedef struct { %s a[%d]; } __attribute__((packed)) %s;' % (s.cty(t.elem), max(t.n, 1), nm)
        elif k == 'vector':
            d = 'typedef struct { %s a[%d]; } __attribute__((packed)) %s;' % (s.cty(t.elem), t.n, nm)
        else:
            offs, sz, al = s.struct_layout(t)
            parts = []; cur = 0
            for i, f in enumerate(t.fields):
                if offs[i] > cur: parts.append('uint8_t pad%d[%d];' % (i, offs[i] - cur))
                fs, _ = s.size_align(f)
                if fs == 0: continue
                parts.append('%s f%d;' % (s.cty(f), i)); cur = offs[i] + fs
            if sz > cur: parts.append('uint8_t padend[%d];' % (sz - cur))
            if not parts: parts = ['uint8_t empty_;']
            d = 'typedef struct { %s } __attribute__((packed)) %s;' % (' '.join(parts), nm)
        s.aggdefs[key] = (nm, d); s.aggorder.append(key)
        return nm
    def canon(s, t):
        t = s.res(t); k = t.kind
        if k == 'ptr': return Ty('ptr', to=I(8))
        if k == 'array': return Ty('array', n=t.n, elem=s.canon(t.elem))
        if k == 'vector': return Ty('vector', n=t.n, elem=s.canon(t.elem))
        if k == 'struct': return Ty('struct', fields=[s.canon(f) for f in (t.fields or [])], packed=t.packed)
        return t

class FnEmit:
    def __init__(s, cx, f):
        s.cx = cx; s.f = f; s.out = []; s.locals = {}; s.tmp = 0
        s.types = {}   # local name -> Ty
    def w(s, x): s.out.append(x)
    def lname(s, n): return 'v_' + cname(n)
    def blk(s, n): return 'L_' + cname(n)
    # ---- constants
    def const(s, v, ty=None):
        cx = s.cx; ty = v.ty if v.ty is not None else ty
        k = v.kind
        if k == 'local': return s.lname(v.name)
        if k == 'global': return s.gaddr(v.name)
        rt = cx.res(ty) if ty is not None else None
        if k == 'int':
            if rt.kind == 'int':
                val = v.v & ((1 << rt.bits) - 1)
                if rt.bits > 64:
                    hi = val >> 64; lo = val & ((1 << 64) - 1)
                    return '((((%s)%dULL)<<64)|(%s)%dULL)' % (cx.cty(ty), hi, cx.cty(ty), lo)
                return '((%s)%dULL)' % (cx.cty(ty), val)
            raise Exception('int const of ' + repr(ty))
        if k == 'float':
            if v.v is not None:
                return '((%s)%s)' % (cx.cty(ty), v.raw)
            raw = v.raw
            if raw.startswith('0x') and raw[2] not in 'KMLHR':
                bits = int(raw, 16)   # always a double bit pattern
                cx.helpers.add('bits2double')
                return '((%s)bits2double(%dULL))' % (cx.cty(ty), bits)
            raise Exception('float const ' + raw)
        if k == 'null': return '((ptr)0)'
        if k == 'meta': return '0'
        if k in ('undef', 'zero'):
            if rt.kind in ('int',): return '((%s)0)' % cx.cty(ty)
            if rt.kind == 'float': return '((%s)0)' % cx.cty(ty)
            if rt.kind == 'ptr': return '((ptr)0)'
            return '((%s){0})' % cx.cty(ty)
        if k == 'agg':
            ct = cx.cty(ty)
            if rt.kind in ('array', 'vector'):
                return '((%s){{%s}})' % (ct, ', '.join(s.const(e) for e in v.elems))
            parts = []
            for i, e in enumerate(v.elems):
                if cx.size_align(e.ty)[0] == 0: continue
                parts.append('.f%d = %s' % (i, s.const(e)))
            return '((%s){%s})' % (ct, ', '.join(parts))
        if k == 'str':
            raw = v.raw[2:-1]
            bs = []
            i = 0
            while i < len(raw):
                if raw[i] == '\\':
                    if raw[i+1] == '\\': bs.append(92); i += 2
                    else: bs.append(int(raw[i+1:i+3], 16)); i += 3
                else: bs.append(ord(raw[i])); i += 1
            return '((%s){{%s}})' % (cx.cty(ty), ', '.join(map(str, bs)))
        if k == 'cexpr':
            return s.cexpr(v)
        raise Exception('const ' + repr(v))
    def ginit(s, v, ty):
        cx = s.cx; rt = cx.res(ty); k = v.kind
        if rt.kind in ('int', 'float', 'ptr'): return s.const(v, ty)
        if k in ('zero', 'undef'): return '{0}'
        if k == 'str':
            c = s.const(v, ty); return c[c.index('{'):-1]
        if k == 'agg':
            if rt.kind in ('array', 'vector'): return '{{%s}}' % ', '.join(s.ginit(e, e.ty) for e in v.elems)
            parts = ['.f%d = %s' % (i, s.ginit(e, e.ty)) for i, e in enumerate(v.elems) if cx.size_align(e.ty)[0] != 0]
            return '{%s}' % ', '.join(parts)
        raise Exception('ginit ' + repr(v))
    def gaddr(s, name):
        m = s.cx.m
        if name in m.aliases:
            return s.const(m.aliases[name])
        if name in m.funcs:
            s.cx.called.add(name); return '((ptr)&%s)' % cname(name)
        return '((ptr)&g_%s)' % cname(name)
    def cexpr(s, v):
        op = v.op; cx = s.cx
        if op in ('bitcast', 'addrspacecast'):
            return s.const(v.ops[0])
        if op == 'getelementptr':
            return s.gep_expr(v.srcty, v.ops[0], v.ops[1:])
        if op == 'ptrtoint': return '((%s)(uintptr_t)%s)' % (cx.cty(v.ty), s.const(v.ops[0]))
        if op == 'inttoptr': return '((ptr)(uintptr_t)%s)' % s.const(v.ops[0])
        if op in ('add', 'sub', 'and', 'or', 'xor', 'mul'):
            c = {'add': '+', 'sub': '-', 'and': '&', 'or': '|', 'xor': '^', 'mul': '*'}[op]
            return '((%s)(%s %s %s))' % (cx.cty(v.ops[0].ty), s.const(v.ops[0]), c, s.const(v.ops[1]))
        if op in ('trunc', 'zext'):
            return '((%s)%s)' % (cx.cty(v.ty), s.const(v.ops[0]))
        raise Exception('cexpr ' + op)
    def val(s, v): return s.const(v)
    # ---- GEP
    def gep_expr(s, srcty, base, idxs):
        cx = s.cx
        const_off = 0; dyn = []
        t = srcty
        for n, ix in enumerate(idxs):
            if n == 0:
                stride = cx.size_align(t)[0]
            else:
                rt = cx.res(t)
                if rt.kind == 'struct':
                    assert ix.kind == 'int'
                    offs, _, _ = cx.struct_layout(rt)
                    const_off += offs[ix.v]; t = rt.fields[ix.v]; continue
                elif rt.kind in ('array', 'vector'):
                    t = rt.elem; stride = cx.size_align(t)[0]
                else:
                    raise Exception('gep into ' + repr(rt))
            if ix.kind == 'int': const_off += ix.v * stride
            elif stride != 0:
                it = cx.res(ix.ty)
                sv = '(int64_t)(%s)%s' % (cx.scty(ix.ty), s.val(ix))
                dyn.append('%s*%dLL' % (sv, stride))
        s.last_gep_ty = t
        e = s.val(base)
        if const_off: dyn.insert(0, '%dLL' % const_off)
        if dyn: e = '(%s + (%s))' % (e, ' + '.join(dyn))
        return e

    # ---- helpers for typing
    def vty(s, v):
        if v.kind == 'local' and v.ty is None: return s.types[v.name]
        return v.ty
    def ev_type(s, t, idx):
        for i in idx:
            rt = s.cx.res(t)
            t = rt.fields[i] if rt.kind == 'struct' else rt.elem
        return t
    def ev_path(s, t, idx):
        p = ''
        for i in idx:
            rt = s.cx.res(t)
            if rt.kind == 'struct': p += '.f%d' % i; t = rt.fields[i]
            else: p += '.a[%d]' % i; t = rt.elem
        return p
    def isvec(s, t): return s.cx.res(t).kind == 'vector'
    def zero(s, t):
        rt = s.cx.res(t)
        if rt.kind == 'void': return ''
        if rt.kind in ('int', 'float'): return '(%s)0' % s.cx.cty(t)
        if rt.kind == 'ptr': return '(ptr)0'
        return '(%s){0}' % s.cx.cty(t)

    # ---- scalar op expression builders
    def binop(s, op, t, a, b):
        cx = s.cx; rt = cx.res(t); ct = cx.cty(t)
        if rt.kind == 'float':
            c = {'fadd': '+', 'fsub': '-', 'fmul': '*', 'fdiv': '/'}[op]
            return '(%s %s %s)' % (a, c, b)
        bits = rt.bits
        wide = 'uint32_t' if bits < 32 else ct
        if bits == 1:
            c = {'and': '&', 'or': '|', 'xor': '^', 'add': '^', 'sub': '^', 'mul': '&'}[op]
            return '((u1)((%s %s %s) & 1))' % (a, c, b)
        if op in ('add', 'sub', 'mul', 'and', 'or', 'xor'):
            c = {'add': '+', 'sub': '-', 'mul': '*', 'and': '&', 'or': '|', 'xor': '^'}[op]
            return '((%s)((%s)%s %s (%s)%s))' % (ct, wide, a, c, wide, b)
        if op in ('shl', 'lshr'):
            c = '<<' if op == 'shl' else '>>'
            return '((%s)((%s)%s %s (%s)%s))' % (ct, wide, a, c, wide, b)
        st = cx.scty(t)
        if op == 'ashr': return '((%s)((%s)%s >> %s))' % (ct, st, a, b)
        if op == 'udiv': return '((%s)(%s / %s))' % (ct, a, b)
        if op == 'urem': return '((%s)(%s %% %s))' % (ct, a, b)
        if op == 'sdiv': return '((%s)((%s)%s / (%s)%s))' % (ct, st, a, st, b)
        if op == 'srem': return '((%s)((%s)%s %% (%s)%s))' % (ct, st, a, st, b)
        raise Exception('binop ' + op)
    def icmp(s, pred, t, a, b):
        cx = s.cx; rt = cx.res(t)
        if rt.kind == 'ptr':
            if pred == 'eq': return '((u1)(%s == %s))' % (a, b)
            if pred == 'ne': return '((u1)(%s != %s))' % (a, b)
            a = '(uintptr_t)' + a; b = '(uintptr_t)' + b
            c = {'ult': '<', 'ule': '<=', 'ugt': '>', 'uge': '>=', 'slt': '<', 'sle': '<=', 'sgt': '>', 'sge': '>='}[pred]
            return '((u1)(%s %s %s))' % (a, c, b)
        if pred in ('eq', 'ne'):
            if rt.kind == 'int' and rt.bits == 64 and (b == '((uint64_t)0ULL)' or a == '((uint64_t)0ULL)'):
                x = a if b == '((uint64_t)0ULL)' else b
                return '((u1)(%sIR2C_IS_ZERO64(%s)))' % ('' if pred == 'eq' else '!', x)
            return '((u1)(%s %s %s))' % (a, '==' if pred == 'eq' else '!=', b)
        c = {'lt': '<', 'le': '<=', 'gt': '>', 'ge': '>='}[pred[1:]]
        if pred[0] == 'u':
            return '((u1)(%s %s %s))' % (a, c, b)
        st = cx.scty(t)
        return '((u1)((%s)%s %s (%s)%s))' % (st, a, c, st, b)
    def fcmp(s, pred, a, b):
        o = '(%s == %s && %s == %s)' % (a, a, b, b); u = '(%s != %s || %s != %s)' % (a, a, b, b)
        base = {'eq': '%s == %s', 'gt': '%s > %s', 'ge': '%s >= %s', 'lt': '%s < %s', 'le': '%s <= %s', 'ne': '(%s < %s || %s > %s)'}
        if pred == 'true': return '((u1)1)'
        if pred == 'false': return '((u1)0)'
        if pred == 'ord': return '((u1)%s)' % o
        if pred == 'uno': return '((u1)%s)' % u
        k = pred[1:]
        e = (base[k] % (a, b)) if k != 'ne' else (base[k] % (a, b, a, b))
        if pred[0] == 'o': return '((u1)(%s))' % e
        return '((u1)(%s || (%s)))' % (u, e)
    def cast(s, op, st, dt, a):
        cx = s.cx; rs = cx.res(st); rd = cx.res(dt); cd = cx.cty(dt)
        if op == 'trunc':
            if rd.bits == 1: return '((u1)(%s & 1))' % a
            return '((%s)%s)' % (cd, a)
        if op == 'zext': return '((%s)%s)' % (cd, a)
        if op == 'sext':
            if rs.bits == 1: return '((%s)(%s ? -1 : 0))' % (cd, a)
            return '((%s)(%s)(%s)%s)' % (cd, cx.scty(dt), cx.scty(st), a)
        if op == 'ptrtoint': return '((%s)(uintptr_t)%s)' % (cd, a)
        if op == 'inttoptr': return '((ptr)(uintptr_t)%s)' % a
        if op in ('fptrunc', 'fpext', 'uitofp'): return '((%s)%s)' % (cd, a)
        if op == 'sitofp': return '((%s)(%s)%s)' % (cd, cx.scty(st), a)
        if op == 'fptoui': return '((%s)%s)' % (cd, a)
        if op == 'fptosi': return '((%s)(%s)%s)' % (cd, cx.scty(dt), a)
        raise Exception('cast ' + op)
    def bitcast(s, st, dt, a):
        cx = s.cx; rs = cx.res(st); rd = cx.res(dt)
        if rs.kind == 'ptr' and rd.kind == 'ptr': return a
        # i1 vectors
        if rs.kind == 'vector' and cx.res(rs.elem).kind == 'int' and cx.res(rs.elem).bits == 1:
            ct = cx.cty(dt)
            return '((%s)(%s))' % (ct, ' | '.join('((%s)%s.a[%d] << %d)' % (ct if rs.n > 32 else 'uint64_t', a, i, i) for i in range(rs.n)))
        if rd.kind == 'vector' and cx.res(rd.elem).kind == 'int' and cx.res(rd.elem).bits == 1:
            return '((%s){{%s}})' % (cx.cty(dt), ', '.join('(u1)((%s >> %d) & 1)' % (a, i) for i in range(rd.n)))
        return '(((union { %s s_; %s d_; }){ .s_ = %s }).d_)' % (cx.cty(st), cx.cty(dt), a)

    # ---- intrinsics / modeled callees
    def intrinsic(s, ins, name, args, argtys):
        """return C expression (or '' for no-op), or None if not an intrinsic"""
        cx = s.cx
        n = name[1:]
        if n.startswith('"'): n = n[1:-1]
        if n.startswith('llvm.lifetime') or n.startswith('llvm.dbg') or n.startswith('llvm.experimental.noalias') or n.startswith('llvm.invariant') or n == 'llvm.donothing':
            return ''
        if n.startswith('llvm.assume'):
            if cx.o.assume_as_assert: return '__CPROVER_assert(%s, "llvm.assume (UNODB_DETAIL_ASSUME) holds")' % args[0]
            return ''
        if n.startswith('llvm.expect'): return args[0]
        if n.startswith('llvm.memcpy') or n.startswith('llvm.memmove'):
            a2 = ins.args[2]
            if a2.kind == 'int' and 0 < a2.v <= 512:
                nb = a2.v; parts = []; st = []; off = 0; k = 0
                while off < nb:
                    for w, ct in ((8, 'uint64_t'), (4, 'uint32_t'), (2, 'uint16_t'), (1, 'uint8_t')):
                        if nb - off >= w: break
                    parts.append('%s w%d_ = *(%s*)(%s + %d);' % (ct, k, ct, args[1], off)); st.append('*(%s*)(%s + %d) = w%d_;' % (ct, args[0], off, k)); off += w; k += 1
                return 'do { %s %s } while (0)' % (' '.join(parts), ' '.join(st))
            if a2.kind == 'int' and a2.v % 8 == 0:
                return 'm_memcpy_words(%s, %s, %d)' % (args[0], args[1], a2.v // 8)
            f = 'm_memcpy' if 'memcpy' in n else 'm_memmove'
            return '%s(%s, %s, %s)' % (f, args[0], args[1], args[2])
        if n.startswith('llvm.memset'):
            a2 = ins.args[2]; a1 = ins.args[1]
            if a2.kind == 'int' and 0 < a2.v <= 4096 and a1.kind == 'int':
                nb = a2.v; st = []; off = 0; bv = a1.v & 255
                while off < nb:
                    for w, ct in ((8, 'uint64_t'), (4, 'uint32_t'), (2, 'uint16_t'), (1, 'uint8_t')):
                        if nb - off >= w: break
                    st.append('*(%s*)(%s + %d) = (%s)0x%sULL;' % (ct, args[0], off, ct, ('%02x' % bv) * w)); off += w
                return 'do { %s } while (0)' % ' '.join(st)
            return 'm_memset(%s, %s, %s)' % (args[0], args[1], args[2])
        if n == 'llvm.trap':
            return 'do { __CPROVER_assert(0, "llvm.trap reached"); __CPROVER_assume(0); } while (0)'
        if n == 'llvm.x86.sse2.pause': return 'ir2c_spin_hint()'
        if n.startswith('llvm.eh.typeid.for'): return 'ir2c_typeid(%s)' % args[0]
        rt = cx.res(ins.ty) if ins.ty is not None else None
        m = re.match(r'llvm\.(bswap|ctpop|cttz|ctlz|umax|umin|smax|smin|abs|fshl|fshr|fabs)\.(i|f)(\d+)$', n)
        if m:
            op, k, bits = m.group(1), m.group(2), int(m.group(3))
            cx.helpers.add((op, bits))
            if op in ('cttz', 'ctlz', 'abs'): args = args[:1]
            return 'ir2c_%s%d(%s)' % (op, bits, ', '.join(args))
        m = re.match(r'llvm\.(umax|umin|smax|smin)\.v(\d+)i(\d+)$', n)
        if m:
            op, cnt, bits = m.group(1), int(m.group(2)), int(m.group(3))
            cx.helpers.add((op, bits))
            ct = cx.cty(ins.ty)
            return '((%s){{%s}})' % (ct, ', '.join('ir2c_%s%d(%s.a[%d], %s.a[%d])' % (op, bits, args[0], i, args[1], i) for i in range(cnt)))
        m = re.match(r'llvm\.(u|s)(add|sub|mul)\.with\.overflow\.i(\d+)$', n)
        if m:
            cx.helpers.add(('ovf', m.group(1), m.group(2), int(m.group(3)), cx.cty(ins.ty)))
            return 'ir2c_%s%s_ovf%s(%s)' % (m.group(1), m.group(2), m.group(3), ', '.join(args))
        m = re.match(r'llvm\.fmuladd\.f(32|64)$', n)
        if m:
            return '(%s * %s + %s)' % (args[0], args[1], args[2])
        if n.startswith('llvm.x86.'):
            cx.helpers.add(('x86', n))
            # generic: pass through to hand-written model taking/returning byte blobs
            return 'ir2c_%s(%s)' % (cname(n), ', '.join(args))
        if n.startswith('llvm.'):
            raise Exception('unhandled intrinsic ' + n)
        return None

    def emit(s):
        cx = s.cx; f = s.f; w = s.w
        # typing pass
        for (t, nm, a) in f.params:
            if nm: s.types[nm] = t
        for lbl, rows in f.blocks:
            for ins in rows:
                if ins.res is None: continue
                if ins.op == 'getelementptr': ins.ty = Ty('ptr', to=I(8))
                elif ins.op == 'extractvalue':
                    ins.ty = s.ev_type(s.vty(ins.a) if ins.a.ty is None else ins.a.ty, ins.idx)
                s.types[ins.res] = ins.ty
        # implicit entry label name: number of params (unnamed count)
        preds_phi = {}
        blocks = {}
        for bi, (lbl, rows) in enumerate(f.blocks):
            if lbl is None:
                lbl = str(sum(1 for p in f.params if (p[1] is None or re.fullmatch(r'%\d+', p[1]))))
                f.blocks[bi] = (lbl, rows)
            blocks[lbl] = rows
        s.blocks = blocks
        # emit blocks in reverse post-order so that backward gotos are exactly the loop back-edges (CBMC identifies loops by them)
        succ = {}
        for lbl, rows in f.blocks:
            t = rows[-1] if rows else None
            ss = []
            if t is not None:
                if t.op == 'br': ss = [t.dest] if t.cond is None else [t.t, t.f]
                elif t.op == 'switch': ss = [t.default] + [l for c, l in t.cases]
                elif t.op == 'invoke': ss = [t.normal, t.unwind]
            succ[lbl] = [x.lstrip('%') for x in ss]
        order = []; seen = set()
        entry = f.blocks[0][0]
        stack = [(entry, iter(succ.get(entry, [])))]; seen.add(entry)
        while stack:
            n, it = stack[-1]
            adv = False
            for m in it:
                if m not in seen and m in blocks:
                    seen.add(m); stack.append((m, iter(succ.get(m, [])))); adv = True; break
            if not adv:
                order.append(n); stack.pop()
        order.reverse()
        rest = [lbl for lbl, rows in f.blocks if lbl not in seen]
        f.blocks = [(lbl, blocks[lbl]) for lbl in order + rest]
        s.typevals = set()
        if cx.o.max_node_type is not None:
            if 'unodb::node_type' in cx.dem.get(cname(f.name), ''):
                for (t, nm, a) in f.params:
                    if nm and cx.res(t).kind == 'int' and cx.res(t).bits == 8: s.typevals.add(nm)
            changed = True
            while changed:
                changed = False
                for lbl, rows in f.blocks:
                    for ins in rows:
                        if ins.res is None or ins.res in s.typevals: continue
                        hit = False
                        if ins.op == 'call' and ins.callee.kind == 'global' and re.search(r'basic_node_ptr<.*>::type\(\) const', cx.dem.get(cname(ins.callee.name), '')): hit = True
                        elif ins.op in ('zext', 'trunc', 'freeze') and ins.a.kind == 'local' and ins.a.name in s.typevals: hit = True
                        elif ins.op == 'phi' and any(v.kind == 'local' and v.name in s.typevals for v, l in ins.inc): hit = True
                        if hit: s.typevals.add(ins.res); changed = True
        decl = []
        for nm, t in s.types.items():
            if cx.res(t).kind == 'void': continue
            if any(nm == p[1] for p in f.params): continue
            decl.append('  %s %s;' % (cx.cty(t), s.lname(nm)))
        body = []
        s.out = body
        s.curblk = None
        for rx, code in getattr(cx.o, 'entry_hooks', []) or []:
            if re.search(rx, cx.dem.get(cname(f.name), '')):
                w(code); cx.hooked.append(cx.dem.get(cname(f.name), ''))
        for lbl, rows in f.blocks:
            s.curblk = lbl
            w('%s: ;' % s.blk('%' + lbl))
            for ins in rows:
                if ins.op == 'phi': continue
                s.instr(ins)
        # header
        ps = []
        for i, (t, nm, a) in enumerate(f.params):
            ps.append('%s %s' % (cx.cty(t), s.lname(nm if nm else '%%%d' % i)))
        hdr = '%s %s(%s)' % (cx.cty(f.ret), cname(f.name), ', '.join(ps) if ps else 'void')
        pro = []
        for i, (t, nm, a) in enumerate(f.params):
            if 'byval' in a and a['byval'] is not True:
                sz = cx.size_align(a['byval'])[0]
                pn = s.lname(nm if nm else '%%%d' % i)
                pro.append('  uint8_t bv_%s[%d]; memcpy(bv_%s, %s, %d); %s = bv_%s;' % (pn, max(sz, 1), pn, pn, sz, pn, pn))
        return hdr, '\n'.join([hdr + ' {'] + decl + s.extra_decl + pro + ['  ' + l for l in body] + ['}'])

    def edge(s, frm, to):
        """phi moves for edge frm->to, then goto"""
        rows = s.blocks[to.lstrip('%')] if to.lstrip('%') in s.blocks else s.blocks[to[1:]]
        moves = []; finals = []
        for ins in rows:
            if ins.op != 'phi': break
            for v, l in ins.inc:
                if l.lstrip('%') == frm:
                    tn = 'phi_' + cname(ins.res)
                    if tn not in s.phitmps:
                        s.phitmps.add(tn); s.extra_decl.append('  %s %s;' % (s.cx.cty(ins.ty), tn))
                    vv = v; vv.ty = ins.ty
                    moves.append('%s = %s;' % (tn, s.val(vv))); finals.append('%s = %s;' % (s.lname(ins.res), tn))
                    break
        return ' '.join(moves + finals + ['goto %s;' % s.blk(to)])

    def yield_point(s):
        """preemption point before an atomic access (own sequentialisation, see glue: ir2c_yield)"""
        rx = getattr(s.cx.o, 'yield_in', None)
        if not rx: return
        if re.search(rx, s.cx.dem.get(cname(s.f.name), '')):
            s.cx.nyield += 1
            s.w('ir2c_yield(%d);' % s.cx.nyield)

    def may_throw(s, ins, name):
        m = s.cx.m
        groups = list(ins.attrgroups)
        if name and name in m.funcs:
            fn = m.funcs[name]; groups += fn.attrgroups
            if 'nounwind' in fn.attrs: return False
        if 'nounwind' in ins.cattrs: return False
        for g in groups:
            if 'nounwind' in m.attrgroups.get(g, ''): return False
        return True

    def instr(s, ins):
        cx = s.cx; w = s.w; op = ins.op
        r = s.lname(ins.res) if ins.res else None
        def V(v): return s.val(v)
        if op in ('add', 'sub', 'mul', 'shl', 'udiv', 'sdiv', 'urem', 'srem', 'lshr', 'ashr', 'and', 'or', 'xor', 'fadd', 'fsub', 'fmul', 'fdiv'):
            if s.isvec(ins.ty):
                rt = cx.res(ins.ty)
                for i in range(rt.n):
                    w('%s.a[%d] = %s;' % (r, i, s.binop(op, rt.elem, '%s.a[%d]' % (V(ins.a), i), '%s.a[%d]' % (V(ins.b), i))))
            else:
                w('%s = %s;' % (r, s.binop(op, ins.ty, V(ins.a), V(ins.b))))
        elif op == 'fneg': w('%s = -%s;' % (r, V(ins.a)))
        elif op == 'icmp':
            if s.isvec(ins.a.ty):
                rt = cx.res(ins.a.ty)
                for i in range(rt.n):
                    w('%s.a[%d] = %s;' % (r, i, s.icmp(ins.pred, rt.elem, '%s.a[%d]' % (V(ins.a), i), '%s.a[%d]' % (V(ins.b), i))))
            else: w('%s = %s;' % (r, s.icmp(ins.pred, ins.a.ty, V(ins.a), V(ins.b))))
        elif op == 'fcmp': w('%s = %s;' % (r, s.fcmp(ins.pred, V(ins.a), V(ins.b))))
        elif op in ('trunc', 'zext', 'sext', 'fptrunc', 'fpext', 'fptoui', 'fptosi', 'uitofp', 'sitofp', 'ptrtoint', 'inttoptr'):
            if s.isvec(ins.ty):
                rt = cx.res(ins.ty); rs = cx.res(ins.a.ty)
                for i in range(rt.n):
                    w('%s.a[%d] = %s;' % (r, i, s.cast(op, rs.elem, rt.elem, '%s.a[%d]' % (V(ins.a), i))))
            else: w('%s = %s;' % (r, s.cast(op, ins.a.ty, ins.ty, V(ins.a))))
        elif op in ('bitcast', 'addrspacecast'): w('%s = %s;' % (r, s.bitcast(ins.a.ty, ins.ty, V(ins.a))))
        elif op == 'freeze': w('%s = %s;' % (r, V(ins.a)))
        elif op == 'select':
            if s.isvec(ins.c.ty):
                rt = cx.res(ins.ty)
                for i in range(rt.n):
                    w('%s.a[%d] = %s.a[%d] ? %s.a[%d] : %s.a[%d];' % (r, i, V(ins.c), i, V(ins.a), i, V(ins.b), i))
            else: w('%s = %s ? %s : %s;' % (r, V(ins.c), V(ins.a), V(ins.b)))
        elif op == 'alloca':
            sz, al = cx.size_align(ins.aty)
            n = 1
            if ins.n is not None:
                assert ins.n.kind == 'int', 'dynamic alloca'
                n = ins.n.v
            an = 'a_' + cname(ins.res)
            s.extra_decl.append('  uint64_t %s[%d] __attribute__((aligned(%d))) IR2C_ZI;' % (an, max((sz * n + 7) // 8, 1), max(al, 8)))
            w('%s = (ptr)%s;' % (r, an))
        elif op == 'load':
            if ins.atomic: s.yield_point(); w('IR2C_NULLCHK(%s);' % V(ins.p))
            ct = cx.cty(ins.ty); e = '(*(%s*)%s)' % (ct, V(ins.p))
            if cx.res(ins.ty).kind == 'int' and cx.res(ins.ty).bits == 1: e = '(%s & 1)' % e
            if ins.atomic and cx.o.threads: w('__CPROVER_atomic_begin(); %s = %s; __CPROVER_atomic_end();' % (r, e))
            else: w('%s = %s;' % (r, e))
        elif op == 'store':
            if ins.atomic: s.yield_point(); w('IR2C_NULLCHK(%s);' % V(ins.p))
            t = ins.v.ty; ct = cx.cty(t)
            st = '*(%s*)%s = %s;' % (ct, V(ins.p), V(ins.v))
            if ins.atomic and cx.o.threads: w('__CPROVER_atomic_begin(); %s __CPROVER_atomic_end();' % st)
            else: w(st)
        elif op == 'fence':
            w('ir2c_fence();')
        elif op == 'cmpxchg':
            s.yield_point(); w('IR2C_NULLCHK(%s);' % V(ins.p))
            ct = cx.cty(ins.cmp.ty)
            b, e = ('__CPROVER_atomic_begin(); ', ' __CPROVER_atomic_end();') if cx.o.threads else ('', '')
            w('%s%s.f0 = *(%s*)%s; %s.f1 = (u1)(%s.f0 == %s); if (%s.f1) *(%s*)%s = %s;%s' % (b, r, ct, V(ins.p), r, r, V(ins.cmp), r, ct, V(ins.p), V(ins.new), e))
        elif op == 'atomicrmw':
            s.yield_point(); w('IR2C_NULLCHK(%s);' % V(ins.p))
            ct = cx.cty(ins.v.ty); pp = '(*(%s*)%s)' % (ct, V(ins.p)); v = V(ins.v)
            new = {'xchg': v, 'add': s.binop('add', ins.v.ty, r, v), 'sub': s.binop('sub', ins.v.ty, r, v),
                   'and': s.binop('and', ins.v.ty, r, v), 'or': s.binop('or', ins.v.ty, r, v), 'xor': s.binop('xor', ins.v.ty, r, v)}[ins.rmw]
            b, e = ('__CPROVER_atomic_begin(); ', ' __CPROVER_atomic_end();') if cx.o.threads else ('', '')
            w('%s%s = %s; %s = %s;%s' % (b, r, pp, pp, new, e))
        elif op == 'getelementptr':
            w('%s = %s;' % (r, s.gep_expr(ins.srcty, ins.p, ins.idx)))
        elif op == 'br':
            if ins.cond is None: w(s.edge(s.curblk, ins.dest))
            else: w('if (%s) { %s } else { %s }' % (V(ins.cond), s.edge(s.curblk, ins.t), s.edge(s.curblk, ins.f)))
        elif op == 'switch':
            w('switch (%s) {' % V(ins.v))
            prune = ins.v.kind == 'local' and ins.v.name in s.typevals
            for c, l in ins.cases:
                if prune and c.v > cx.o.max_node_type:
                    w('  case %s: { __CPROVER_assert(0, "node type beyond stated bound reached"); __CPROVER_assume(0); }' % V(c)); cx.pruned += 1
                else: w('  case %s: { %s }' % (V(c), s.edge(s.curblk, l)))
            w('  default: { %s }' % s.edge(s.curblk, ins.default)); w('}')
        elif op == 'ret':
            w('return %s;' % (V(ins.v) if ins.v is not None else ''))
        elif op == 'unreachable':
            w('__CPROVER_assume(0); return %s;' % s.zero(s.f.ret))
        elif op == 'resume':
            w('ir2c_exc_pending = 1; return %s;' % s.zero(s.f.ret))
        elif op == 'landingpad':
            # selector: first matching clause
            sel = '0'
            conds = []
            for kind, cv in ins.clauses:
                if kind != 'catch': continue
                if cv.kind == 'null': conds.append(('1', 'ir2c_exc_type ? ir2c_exc_type : 1'))
                else: conds.append(('ir2c_exc_matches(%s)' % s.val(cv), 'ir2c_typeid(%s)' % s.val(cv)))
            e = '0'
            for c, v in reversed(conds): e = '(%s ? (uint32_t)(%s) : %s)' % (c, v, e)
            w('ir2c_exc_pending = 0; %s.f0 = ir2c_exc_obj; %s.f1 = %s;' % (r, r, e))
            if not ins.cleanup:
                w('if (%s.f1 == 0) { ir2c_exc_pending = 1; return %s; }' % (r, s.zero(s.f.ret)))
        elif op in ('call', 'invoke'):
            s.call(ins)
        elif op == 'extractvalue':
            w('%s = %s%s;' % (r, V(ins.a), s.ev_path(ins.a.ty, ins.idx)))
        elif op == 'insertvalue':
            w('%s = %s; %s%s = %s;' % (r, V(ins.a), r, s.ev_path(ins.a.ty, ins.idx), V(ins.v)))
        elif op == 'extractelement':
            w('%s = %s.a[%s];' % (r, V(ins.a), V(ins.i)))
        elif op == 'insertelement':
            w('%s = %s; %s.a[%s] = %s;' % (r, V(ins.a), r, V(ins.i), V(ins.v)))
        elif op == 'shufflevector':
            na = cx.res(ins.a.ty).n
            if ins.m.kind in ('zero', 'undef'): idxs = [0] * ins.m.ty.n
            else: idxs = [(e.v if e.kind == 'int' else 0) for e in ins.m.elems]
            for i, ix in enumerate(idxs):
                src = '%s.a[%d]' % (V(ins.a), ix) if ix < na else '%s.a[%d]' % (V(ins.b), ix - na)
                w('sh_%s.a[%d] = %s;' % (cname(ins.res), i, src))
            s.extra_decl.append('  %s sh_%s;' % (cx.cty(ins.ty), cname(ins.res)))
            w('%s = sh_%s;' % (r, cname(ins.res)))
        else:
            raise Exception('emit ' + op)

    def call(s, ins):
        cx = s.cx; w = s.w
        r = s.lname(ins.res) if ins.res else None
        args = [s.val(a) for a in ins.args]
        name = ins.callee.name if ins.callee.kind == 'global' else None
        if name and name in cx.m.aliases and cx.m.aliases[name].kind == 'global': name = cx.m.aliases[name].name
        e = None
        if name == '@__CPROVER_assert':
            a = ins.args[1]; msg = 'assertion'
            while a.kind == 'cexpr': a = a.ops[0]
            if a.kind == 'global' and a.name in cx.m.globals and cx.m.globals[a.name].init is not None and cx.m.globals[a.name].init.kind == 'str':
                raw = cx.m.globals[a.name].init.raw[2:-1]
                msg = re.sub(r'\\[0-9A-Fa-f]{2}', '', raw).replace('"', "'")
            w('__CPROVER_assert(%s, "%s");' % (args[0], msg))
            if ins.op == 'invoke': w(s.edge(s.curblk, ins.normal))
            return
        if name == '@__assert_fail':
            a = ins.args[0]; msg = 'assert'
            while a.kind == 'cexpr': a = a.ops[0]
            if a.kind == 'global' and a.name in cx.m.globals and cx.m.globals[a.name].init is not None and cx.m.globals[a.name].init.kind == 'str':
                raw = cx.m.globals[a.name].init.raw[2:-1]
                msg = re.sub(r'\\[0-9A-Fa-f]{2}', '', raw).replace('"', "'")
            w('__CPROVER_assert(0, "library assertion failed: %s"); __CPROVER_assume(0);' % msg[:150])
            return
        if ins.callee.kind == 'asm':
            e = 'ir2c_spin_hint()'
        elif name:
            e = s.intrinsic(ins, name, args, [a.ty for a in ins.args])
        thrower = False
        if e is None:
            if name:
                cn = cname(name)
                if cn in MODEL_RENAME: cn = MODEL_RENAME[cn]
                if name not in cx.m.funcs and cn not in MODELS: raise Exception('call to unknown ' + name)
                cx.called.add(name)
                e = '%s(%s)' % (cn, ', '.join(args))
                thrower = s.may_throw(ins, name)
            else:
                ins.callee.ty = Ty('ptr', to=I(8))
                fp = s.val(ins.callee)
                rt = cx.cty(ins.ty)
                ats = ', '.join(cx.cty(a.ty) for a in ins.args) or 'void'
                e = '((%s(*)(%s))%s)(%s)' % (rt, ats, fp, ', '.join(args))
                thrower = s.may_throw(ins, None)
        if e != '':
            if r and cx.res(ins.ty).kind != 'void': w('%s = %s;' % (r, e))
            else: w('%s;' % e)
        if ins.op == 'invoke':
            if thrower: w('if (ir2c_exc_pending) { %s } else { %s }' % (s.edge(s.curblk, ins.unwind), s.edge(s.curblk, ins.normal)))
            else: w(s.edge(s.curblk, ins.normal))
        elif thrower:
            w('if (ir2c_exc_pending) return %s;' % s.zero(s.f.ret))

MODEL_RENAME = {'memcmp': 'm_memcmp', 'free': 'm_free', 'malloc': 'm_malloc', 'posix_memalign': 'm_posix_memalign',
                'abort': 'm_abort', 'strlen': 'm_strlen', 'memchr': 'm_memchr', 'bcmp': 'm_memcmp', 'memcpy': 'm_memcpy', 'memmove': 'm_memmove', 'memset': 'm_memset',
                'calloc': 'm_calloc', 'realloc': 'm_realloc', 'aligned_alloc': 'm_aligned_alloc'}
MODELS = {'m_memcmp', 'm_free', 'm_malloc', 'm_posix_memalign', 'm_abort', 'm_strlen', 'm_memcpy', 'm_memmove', 'm_memset',
          '_Znwm', '_ZdlPv', '_ZdlPvm', '_Znam', '_ZdaPv', '_ZnwmSt11align_val_t', '_ZdlPvSt11align_val_t', '_ZdlPvmSt11align_val_t',
          '__cxa_allocate_exception', '__cxa_throw', '__cxa_begin_catch', '__cxa_end_catch', '__cxa_free_exception', '__cxa_rethrow',
          '__cxa_guard_acquire', '__cxa_guard_release', '__cxa_guard_abort', '__cxa_atexit', '__cxa_thread_atexit', '_ZSt9terminatev', '__clang_call_terminate',
          '__cxa_pure_virtual', '_ZSt17__throw_bad_allocv', '_ZSt20__throw_length_errorPKc', '_ZSt28__throw_bad_array_new_lengthv',
          '_ZNSt8ios_base4InitC1Ev', '_ZNSt8ios_base4InitD1Ev', '__CPROVER_assume', '__CPROVER_assert', '__CPROVER_atomic_begin', '__CPROVER_atomic_end', '_ZSt19__throw_logic_errorPKc', '_ZSt24__throw_out_of_range_fmtPKcz', '__assert_fail', 'pthread_self', 'pthread_mutex_lock', 'pthread_mutex_unlock', 'pthread_mutex_trylock', '_ZSt20__throw_system_errori', '_ZNSt12length_errorC1EPKc', '_ZNSt12length_errorD1Ev', '_ZNSt9bad_allocD1Ev', '_ZNSt11logic_errorC1EPKc', '_ZNSt11logic_errorD1Ev', '_ZNSt9exceptionD1Ev', '_ZNSt9exceptionD2Ev'}

# externals of the compiled part of libstdc++ for which "return zero" is a functionally exact model
BENIGN_ZERO = {
    '_ZNKSt8__detail20_Prime_rehash_policy14_M_need_rehashEmmm':
        'std::__detail::_Prime_rehash_policy::_M_need_rehash -> {false, 0}: the hash table never grows its bucket array; it stays a correct (single-bucket chain) multiset, only slower',
}

PRELUDE = r'''
#include <stdint.h>
#include <stddef.h>
#include <stdlib.h>
#include <string.h>
typedef uint8_t u1;
typedef uint8_t *ptr;
#ifndef __CPROVER__
#include <assert.h>
#include <stdio.h>
#define __CPROVER_assume(c) do { if (!(c)) { printf("ASSUME-FALSE\n"); exit(0); } } while (0)
#define __CPROVER_assert(c, m) do { if (!(c)) { printf("ASSERT-FAIL %s\n", m); exit(10); } } while (0)
#define __CPROVER_atomic_begin()
#define __CPROVER_atomic_end()
#define __CPROVER_thread_local __thread
#endif
static u1 ir2c_exc_pending; static ptr ir2c_exc_obj; static uint32_t ir2c_exc_type; static uint64_t ir2c_deferred_count;
#ifdef __CPROVER__
#define IR2C_PTROFF(p) ((uint64_t)__CPROVER_POINTER_OFFSET(p))
/* x == 0 for a 64-bit word that may hold a tagged pointer: the offset test folds in symex when a tag is present */
#define IR2C_IS_ZERO64(x) (__CPROVER_POINTER_OFFSET((ptr)(uintptr_t)(x)) == 0 && (x) == 0)
#define IR2C_TAGOF(x) ((uint64_t)__CPROVER_POINTER_OFFSET((ptr)(uintptr_t)(x)) & 7)
#else
#define IR2C_PTROFF(p) ((uint64_t)(uintptr_t)(p))
#define IR2C_IS_ZERO64(x) ((x) == 0)
#define IR2C_TAGOF(x) ((uint64_t)(x) & 7)
#endif
#ifdef IR2C_NONDET_INIT
#define IR2C_ZI
#else
#define IR2C_ZI = {0}
#endif
/* own sequentialisation with preemption bound 1: the k-th atomic access executed while yields are enabled is the preemption point;
   the preempting thread runs one complete harness-provided action (verif_interfere) there.  k is chosen by the harness (symbolic). */
static uint32_t ir2c_yield_enabled, ir2c_in_yield; static uint64_t ir2c_yield_count, ir2c_yield_at, ir2c_yield_site;
void verif_interfere(void);
static void ir2c_yield(uint32_t site) {
  if (!ir2c_yield_enabled || ir2c_in_yield) return;
  ir2c_yield_count++;
  if (ir2c_yield_count == ir2c_yield_at) { ir2c_in_yield = 1; ir2c_yield_site = site; verif_interfere(); ir2c_in_yield = 0; }
}
static inline void ir2c_fence(void) {}
/* opt-in (IR2C_NULL_GUARD): an atomic access through a pointer derived from NULL (e.g. a moved-from read critical section whose lock pointer
   was reset) is reported and the path ends there; without the cut symbolic execution wanders off through the invalid object */
#if defined(IR2C_NULL_GUARD) && defined(__CPROVER__)
#define IR2C_NULLCHK(p) do { __CPROVER_assert(__CPROVER_POINTER_OBJECT(p) != __CPROVER_POINTER_OBJECT((ptr)0), "dereference failure: atomic access through a null pointer"); __CPROVER_assume(__CPROVER_POINTER_OBJECT(p) != __CPROVER_POINTER_OBJECT((ptr)0)); } while (0)
#else
#define IR2C_NULLCHK(p) do { } while (0)
#endif
#ifdef IR2C_SPIN_BLOCKS
/* own sequentialisation: the preempting thread must run to completion; if it has to wait for a lock held by the preempted thread the
   schedule "B completes here" does not exist (B would wait until A resumes, which is the schedule with a later preemption point or B after A).
   Such a run ends here; it counts as reached (witness) and nothing after it is asserted. */
static inline void ir2c_spin_hint(void) { if (ir2c_in_yield) { __CPROVER_assert(0, "WITNESS end of harness reachable"); __CPROVER_assume(0); } }
#elif defined(IR2C_SPIN_CUT)
/* a thread that keeps spinning only re-reads, and an execution in which it spins n+1 times is equivalent to one in which it arrives later and
   spins n times - PROVIDED the loop treats what it reads after a spin like what it reads on arrival.  That proviso is part of what is checked:
   each thread may spin IR2C_SPIN_BUDGET times (default 1), so the first re-read after a wait is explored in full; only then is the run cut. */
#ifndef IR2C_SPIN_BUDGET
#define IR2C_SPIN_BUDGET 1
#endif
#ifdef __CPROVER__
static __CPROVER_thread_local uint32_t ir2c_spins;
#else
static _Thread_local uint32_t ir2c_spins;
#endif
static inline void ir2c_spin_hint(void) { if (++ir2c_spins > IR2C_SPIN_BUDGET) __CPROVER_assume(0); }
#else
static inline void ir2c_spin_hint(void) {}
#endif
static inline double bits2double(uint64_t b) { double d; memcpy(&d, &b, 8); return d; }
'''

MODELS_C = r'''
/* ---- environment models (trusted stubs; listed in evidence) ---- */
uint64_t ir2c_alloc_count; uint64_t ir2c_fail_alloc_at; /* 0 = never fail */
uint64_t ir2c_live_allocs; uint64_t ir2c_live_bytes;
#ifdef __CPROVER__
#ifdef IR2C_NONDET_INIT
#define IR2C_RAW_ALLOC(words) ((ptr)__CPROVER_allocate(sizeof(uint64_t) * (words), 0))
#else
#define IR2C_RAW_ALLOC(words) ((ptr)__CPROVER_allocate(sizeof(uint64_t) * (words), 1))
#endif
#else
#define IR2C_RAW_ALLOC(words) ((ptr)calloc((words), sizeof(uint64_t)))
#endif
#ifdef IR2C_TRACK_BYTES
/* requested sizes by allocation sequence number; freed by pointer comparison (folds for concrete pointers) */
#ifndef IR2C_MAXALLOC
#define IR2C_MAXALLOC 48
#endif
static ptr ir2c_tk[IR2C_MAXALLOC]; static uint64_t ir2c_tv[IR2C_MAXALLOC]; static uint64_t ir2c_tn;
#define IR2C_NOTE_ALLOC(p, n) do { __CPROVER_assert(ir2c_tn < IR2C_MAXALLOC, "allocation table large enough"); ir2c_tk[ir2c_tn] = (p); ir2c_tv[ir2c_tn] = (n); ir2c_tn++; } while (0)
static uint64_t ir2c_take_size(ptr p) { for (uint64_t i = 0; i < IR2C_MAXALLOC; i++) if (i < ir2c_tn && ir2c_tk[i] == p) { ir2c_tk[i] = 0; return ir2c_tv[i]; } return 0; }
#define IR2C_TAKE_SIZE(p) ir2c_take_size(p)
#else
#define IR2C_NOTE_ALLOC(p, n) do { } while (0)
#define IR2C_TAKE_SIZE(p) 0
#endif
static ptr ir2c_alloc(uint64_t n) {
  ir2c_alloc_count++;
  if (ir2c_fail_alloc_at && ir2c_alloc_count == ir2c_fail_alloc_at) return 0;
  ptr p = IR2C_RAW_ALLOC((n + 7) / 8 + (n == 0)); __CPROVER_assume(p != 0);
  ir2c_live_allocs++; ir2c_live_bytes += n; IR2C_NOTE_ALLOC(p, n); return p;
}
static void m_free(ptr p) { if (p) { ir2c_live_allocs--; ir2c_live_bytes -= IR2C_TAKE_SIZE(p); } free(p); }
static ptr m_malloc(uint64_t n) { return ir2c_alloc(n); }
static uint32_t m_posix_memalign(ptr out, uint64_t al, uint64_t n) { ptr p = ir2c_alloc(n); if (!p) return 12; *(ptr*)out = p; return 0; }
static uint32_t m_memcmp(ptr a, ptr b, uint64_t n) { for (uint64_t i = 0; i < n; i++) { if (a[i] != b[i]) return (uint32_t)((int)a[i] - (int)b[i]); } return 0; }
static void m_memcpy_words(ptr d, ptr s, uint64_t n) { for (uint64_t i = 0; i < n; i++) ((uint64_t*)d)[i] = ((uint64_t*)s)[i]; }
static ptr m_memcpy(ptr d, ptr s, uint64_t n) { for (uint64_t i = 0; i < n; i++) d[i] = s[i]; return d; }
static ptr m_memmove(ptr d, ptr s, uint64_t n) { if ((uintptr_t)d <= (uintptr_t)s) { for (uint64_t i = 0; i < n; i++) d[i] = s[i]; } else { for (uint64_t i = n; i > 0; i--) d[i-1] = s[i-1]; } return d; }
static ptr m_memset(ptr d, uint32_t c, uint64_t n) { for (uint64_t i = 0; i < n; i++) d[i] = (uint8_t)c; return d; }
static uint64_t m_strlen(ptr s) { return strlen((const char*)s); }
static void m_abort(void) { __CPROVER_assert(0, "abort() reached"); __CPROVER_assume(0); }
static void _ZSt9terminatev(void) { __CPROVER_assert(0, "std::terminate reached"); __CPROVER_assume(0); }
static void __clang_call_terminate(ptr e) { __CPROVER_assert(0, "exception escaped noexcept function (terminate)"); __CPROVER_assume(0); }
static void __cxa_pure_virtual(void) { __CPROVER_assert(0, "pure virtual"); __CPROVER_assume(0); }
#define TI_BAD_ALLOC 2
#define TI_LENGTH_ERROR 3
#define TI_OTHER 9
extern uint8_t g__ZTISt9bad_alloc[]; extern uint8_t g__ZTISt12length_error[]; extern uint8_t g__ZTISt9exception[]; extern uint8_t g__ZTISt12system_error[]; extern uint8_t g__ZTISt11logic_error[];
static uint32_t ir2c_typeid(ptr ti) { if (ti == (ptr)g__ZTISt9bad_alloc) return TI_BAD_ALLOC; if (ti == (ptr)g__ZTISt12length_error) return TI_LENGTH_ERROR; if (ti == (ptr)g__ZTISt9exception) return 4; if (ti == (ptr)g__ZTISt12system_error) return 5; if (ti == (ptr)g__ZTISt11logic_error) return 6; return TI_OTHER; }
static u1 ir2c_exc_matches(ptr ti) { uint32_t c = ir2c_typeid(ti); if (c == ir2c_exc_type) return 1; if (c == 4) return 1; /* std::exception catches all modeled types */ if (c == 6 && ir2c_exc_type == TI_LENGTH_ERROR) return 1; return 0; }
static ptr __cxa_allocate_exception(uint64_t n) { ptr p = IR2C_RAW_ALLOC((n + 7) / 8 + (n == 0)); __CPROVER_assume(p != 0); return p; }
static void __cxa_free_exception(ptr p) { free(p); }
static void __cxa_throw(ptr obj, ptr ti, ptr dtor) { ir2c_exc_obj = obj; ir2c_exc_type = ir2c_typeid(ti); ir2c_exc_pending = 1; }
static ptr __cxa_begin_catch(ptr obj) { return obj; }
static void __cxa_end_catch(void) { if (!ir2c_exc_pending) { free(ir2c_exc_obj); ir2c_exc_obj = 0; } }
static void __cxa_rethrow(void) { ir2c_exc_pending = 1; }
static ptr ir2c_new(uint64_t n) { ptr p = ir2c_alloc(n); if (!p) { ir2c_exc_obj = __cxa_allocate_exception(8); ir2c_exc_type = TI_BAD_ALLOC; ir2c_exc_pending = 1; } return p; }
static ptr _Znwm(uint64_t n) { return ir2c_new(n); }
static ptr _Znam(uint64_t n) { return ir2c_new(n); }
static ptr _ZnwmSt11align_val_t(uint64_t n, uint64_t a) { return ir2c_new(n); }
static void _ZdlPv(ptr p) { m_free(p); }
static void _ZdaPv(ptr p) { m_free(p); }
static void _ZdlPvm(ptr p, uint64_t n) { m_free(p); }
static void _ZdlPvSt11align_val_t(ptr p, uint64_t a) { m_free(p); }
static void _ZdlPvmSt11align_val_t(ptr p, uint64_t n, uint64_t a) { m_free(p); }
static void _ZSt17__throw_bad_allocv(void) { ir2c_exc_obj = __cxa_allocate_exception(8); ir2c_exc_type = TI_BAD_ALLOC; ir2c_exc_pending = 1; }
static void _ZSt28__throw_bad_array_new_lengthv(void) { _ZSt17__throw_bad_allocv(); }
static void _ZSt20__throw_length_errorPKc(ptr m) { ir2c_exc_obj = __cxa_allocate_exception(8); ir2c_exc_type = TI_LENGTH_ERROR; ir2c_exc_pending = 1; }
static void _ZSt19__throw_logic_errorPKc(ptr m) { ir2c_exc_obj = __cxa_allocate_exception(8); ir2c_exc_type = 6; ir2c_exc_pending = 1; }
static uint32_t __cxa_guard_acquire(ptr g) { return *g == 0; }
static void __cxa_guard_release(ptr g) { *g = 1; }
static void __cxa_guard_abort(ptr g) { }
static uint32_t __cxa_atexit(ptr f, ptr a, ptr d) { return 0; }
static uint32_t __cxa_thread_atexit(ptr f, ptr a, ptr d) { return 0; }
#ifdef __CPROVER__
extern unsigned long __CPROVER_thread_id;
static uint64_t pthread_self(void) { return (uint64_t)__CPROVER_thread_id + 1; }
#else
static uint64_t pthread_self(void) { return 1; }
#endif
/* std::mutex: ghost owner flag kept in the first word of the pthread_mutex_t; single-threaded harnesses */
uint64_t ir2c_mutex_held;
uint64_t ir2c_mutex_foreign;   /* set by the harness: every mutex is currently held by ANOTHER thread.  lock() then waits (the run ends there, reached), trylock() reports EBUSY */
static uint32_t pthread_mutex_lock(ptr m) {
#ifdef __CPROVER__
  if (ir2c_mutex_foreign) { __CPROVER_assert(0, "WITNESS end of harness reachable"); __CPROVER_assume(0); }
#else
  if (ir2c_mutex_foreign) { printf("WITNESS\nBLOCKED\n"); exit(0); }
#endif
  __CPROVER_assert(*(uint32_t*)m == 0, "mutex is not already held when locked (self-deadlock)"); *(uint32_t*)m = 1; ir2c_mutex_held++; return 0; }
static uint32_t pthread_mutex_trylock(ptr m) { if (ir2c_mutex_foreign || *(uint32_t*)m != 0) return 16; *(uint32_t*)m = 1; ir2c_mutex_held++; return 0; }
static uint32_t pthread_mutex_unlock(ptr m) { __CPROVER_assert(*(uint32_t*)m == 1, "mutex is held when unlocked"); *(uint32_t*)m = 0; ir2c_mutex_held--; return 0; }
static void _ZSt20__throw_system_errori(uint32_t e) { ir2c_exc_obj = __cxa_allocate_exception(8); ir2c_exc_type = 5; ir2c_exc_pending = 1; }
static void _ZNSt12length_errorC1EPKc(ptr t, ptr m) {}
static void _ZNSt12length_errorD1Ev(ptr t) {}
static void _ZNSt11logic_errorC1EPKc(ptr t, ptr m) {}
static void _ZNSt11logic_errorD1Ev(ptr t) {}
static void _ZNSt9bad_allocD1Ev(ptr t) {}
static void _ZNSt9exceptionD1Ev(ptr t) {}
static void _ZNSt9exceptionD2Ev(ptr t) {}
static void _ZNSt8ios_base4InitC1Ev(ptr p) {}
static void _ZNSt8ios_base4InitD1Ev(ptr p) {}
'''

def gen_helper(h):
    if h == 'bits2double': return ''
    if h[0] == 'x86': return ''   # hand-written below
    if h[0] == 'ovf':
        _, sg, op, bits, ct = h
        t = 'uint%d_t' % bits; c = {'add': '+', 'sub': '-', 'mul': '*'}[op]
        if sg == 'u' and op == 'add': ov = 'r.f0 < a'
        elif sg == 'u' and op == 'sub': ov = 'a < b'
        elif sg == 'u' and op == 'mul': ov = 'a != 0 && r.f0 / a != b'
        else: raise Exception('ovf ' + repr(h))
        return 'static inline %s ir2c_%s%s_ovf%d(%s a, %s b) { %s r; r.f0 = (%s)(a %s b); r.f1 = (u1)(%s); return r; }\n' % (ct, sg, op, bits, t, t, ct, t, c, ov)
    op, bits = h
    t = 'uint%d_t' % bits if bits in (8, 16, 32, 64) else 'u%d' % bits
    st = 'int%d_t' % bits if bits in (8, 16, 32, 64) else 's%d' % bits
    if op == 'bswap':
        body = ' | '.join('(((x >> %d) & 0xff) << %d)' % (8 * i, bits - 8 - 8 * i) for i in range(bits // 8))
        return 'static inline %s ir2c_bswap%d(%s x) { return (%s)(%s); }\n' % (t, bits, t, t, body)
    if op == 'ctpop':
        return 'static inline %s ir2c_ctpop%d(%s x) { %s c = 0; %s\n return c; }\n' % (t, bits, t, t, ' '.join('c += (x >> %d) & 1;' % i for i in range(bits)))
    if op == 'cttz':
        e = '%d' % bits
        for i in reversed(range(bits)): e = '((x >> %d) & 1) ? %d : (%s)' % (i, i, e)
        return 'static inline %s ir2c_cttz%d(%s x) { return (%s)(%s); }\n' % (t, bits, t, t, e)
    if op == 'ctlz':
        e = '%d' % bits
        for i in range(bits): e = '((x >> %d) & 1) ? %d : (%s)' % (i, bits - 1 - i, e)
        return 'static inline %s ir2c_ctlz%d(%s x) { return (%s)(%s); }\n' % (t, bits, t, t, e)
    if op in ('umax', 'umin'):
        return 'static inline %s ir2c_%s%d(%s a, %s b) { return a %s b ? a : b; }\n' % (t, op, bits, t, t, '>' if op == 'umax' else '<')
    if op in ('smax', 'smin'):
        return 'static inline %s ir2c_%s%d(%s a, %s b) { return (%s)a %s (%s)b ? a : b; }\n' % (t, op, bits, t, t, st, '>' if op == 'smax' else '<', st)
    if op == 'abs': return 'static inline %s ir2c_abs%d(%s a) { return (%s)a < 0 ? (%s)(0 - a) : a; }\n' % (t, bits, t, st, t)
    if op == 'fshl': return 'static inline %s ir2c_fshl%d(%s a, %s b, %s c) { c %%= %d; return c ? (%s)((a << c) | (b >> (%d - c))) : a; }\n' % (t, bits, t, t, t, bits, t, bits)
    if op == 'fshr': return 'static inline %s ir2c_fshr%d(%s a, %s b, %s c) { c %%= %d; return c ? (%s)((a << (%d - c)) | (b >> c)) : b; }\n' % (t, bits, t, t, t, bits, t, bits)
    if op == 'fabs': return 'static inline %s ir2c_fabs%d(%s a) { return a < 0 ? -a : (a == 0 ? 0 : a); }\n' % (('float', 'double')[bits == 64], bits, ('float', 'double')[bits == 64])
    raise Exception('helper ' + repr(h))

def x86_models(cx):
    """hand-written semantics of the few x86 intrinsics unodb reaches; operate on agg vector structs"""
    out = []
    v8i32 = cx.cty(Ty('vector', n=8, elem=I(32))); v16i16 = cx.cty(Ty('vector', n=16, elem=I(16)))
    v4i32 = cx.cty(Ty('vector', n=4, elem=I(32))); v8i16 = cx.cty(Ty('vector', n=8, elem=I(16)))
    v4i64 = cx.cty(Ty('vector', n=4, elem=I(64))); v2i64 = cx.cty(Ty('vector', n=2, elem=I(64)))
    out.append('static inline uint16_t ir2c_sat16(uint32_t x) { int32_t v = (int32_t)x; return (uint16_t)(int16_t)(v > 32767 ? 32767 : (v < -32768 ? -32768 : v)); }')
    out.append('static inline %s ir2c_llvm_x86_avx2_packssdw(%s a, %s b) { %s r; for (int l = 0; l < 2; l++) for (int i = 0; i < 4; i++) { r.a[l*8+i] = ir2c_sat16(a.a[l*4+i]); r.a[l*8+4+i] = ir2c_sat16(b.a[l*4+i]); } return r; }' % (v16i16, v8i32, v8i32, v16i16))
    out.append('static inline %s ir2c_llvm_x86_sse2_packssdw_128(%s a, %s b) { %s r; for (int i = 0; i < 4; i++) { r.a[i] = ir2c_sat16(a.a[i]); r.a[4+i] = ir2c_sat16(b.a[i]); } return r; }' % (v8i16, v4i32, v4i32, v8i16))
    out.append('static inline uint32_t ir2c_llvm_x86_avx_ptestz_256(%s a, %s b) { uint64_t o = 0; for (int i = 0; i < 4; i++) o |= a.a[i] & b.a[i]; return o == 0; }' % (v4i64, v4i64))
    return '\n'.join(out) + '\n'

STUB_REGISTRY = {
 # name -> (regex on demangled name, body maker)
 'qsbr_defer_forever': (r'unodb::qsbr_per_thread::on_next_epoch_deallocate\(', lambda a: '{ ir2c_deferred_count++; return; }'),
 'qsbr_free_now': (r'unodb::qsbr_per_thread::on_next_epoch_deallocate\(', lambda a: '{ m_free(%s); return; }' % a[1]),
 'enc_no_growth': (r'^unodb::detail::ensure_capacity\(', lambda a: '{ __CPROVER_assert(0, "CUT: key_encoder buffer growth is unreachable in this harness"); __CPROVER_assume(0); }'),
 'lib_abort': (r'^unodb::detail::(cannot_happen|crash|msg_stacktrace_abort|assert_failure)\(', lambda a: '{ __CPROVER_assert(0, "unodb cannot_happen/crash/assert_failure reached"); __CPROVER_assume(0); }'),
 'keybuf_no_growth': (r'^unodb::detail::key_buffer::ensure_capacity\(', lambda a: '{ __CPROVER_assert(0, "CUT: iterator key_buffer growth is unreachable in this harness"); __CPROVER_assume(0); }'),
 'keybuf_noop': (r'^unodb::detail::key_buffer::(push|pop)\(', lambda a: '{ return; }'),
 'tag_ptr': (r'unodb::detail::basic_node_ptr<.*>::tag_ptr\(', lambda a: '{ __CPROVER_assert((IR2C_PTROFF(%s) & 7) == 0, "node pointer 8-aligned before tagging"); return (uint64_t)(uintptr_t)(%s + %s); }' % (a[0], a[0], a[1])),
 'node_type': (r'unodb::detail::basic_node_ptr<.*>::type\(\) const', lambda a: '{ uint64_t x = *(uint64_t*)%s; return (uint8_t)IR2C_TAGOF(x); }' % a[0]),
 'node_ptr': (r'auto\* unodb::detail::basic_node_ptr<.*>::ptr<.*>\(\) const', lambda a: '{ uint64_t x = *(uint64_t*)%s; return (ptr)(uintptr_t)(x - IR2C_TAGOF(x)); }' % a[0]),
}
DEFAULT_STUBS = ['tag_ptr', 'node_type', 'node_ptr', 'lib_abort']
def demangle(names):
    import subprocess
    r = subprocess.run(['c++filt'], input='\n'.join(names), capture_output=True, text=True).stdout.split('\n')
    return dict(zip(names, r))

def translate(mod, opts):
    cx = Ctx(mod, opts); cx.called = set()
    dem = demangle([cname(n) for n in mod.funcs])
    cx.stubbed = []; cx.dem = dem; cx.pruned = 0; cx.hooked = []; cx.nyield = 0
    bodies = []; protos = []
    for name, f in mod.funcs.items():
        if f.blocks is None or cname(name) in MODELS: continue
        if opts.only and not any(re.search(o, name) for o in opts.only) and False: continue
        fe = FnEmit(cx, f); fe.extra_decl = []; fe.phitmps = set()
        stub = None
        for sn in opts.stubs:
            rx, mk = STUB_REGISTRY[sn]
            if re.search(rx, dem.get(cname(name), '')): stub = mk
        try:
            if stub:
                an = ['p%d' % i for i in range(len(f.params))]
                hdr = '%s %s(%s)' % (cx.cty(f.ret), cname(f.name), ', '.join('%s %s' % (cx.cty(t), an[i]) for i, (t, nm, a) in enumerate(f.params)))
                body = hdr + ' ' + stub(an); cx.stubbed.append(dem[cname(name)])
            else:
                hdr, body = fe.emit()
        except Exception as e:
            sys.stderr.write('FAILED %s: %s\n' % (name[:80], e))
            if opts.strict: raise
            ps = ', '.join('%s p%d' % (cx.cty(t), i) for i, (t, nm, a) in enumerate(f.params)) or 'void'
            hdr = '%s %s(%s)' % (cx.cty(f.ret), cname(f.name), ps)
            body = hdr + ' { __CPROVER_assert(0, "untranslated function %s"); __CPROVER_assume(0); }' % cname(name)[:60]
        protos.append(hdr + ';'); bodies.append(body)
    # globals
    gdecl = []; gdef = []
    fe = FnEmit(cx, None)
    for name, g in mod.globals.items():
        if name.startswith('@llvm.'): continue
        cn = 'g_' + cname(name)
        tl = '__CPROVER_thread_local ' if g.tls else ''
        if g.external or g.init is None:
            sz = 64
            try: sz = max(cx.size_align(g.ty)[0], 8)
            except Exception: pass
            gdecl.append('extern %suint8_t %s[%d];' % (tl, cn, sz)); gdef.append('%suint8_t %s[%d];' % (tl, cn, sz))
            continue
        ct = cx.cty(g.ty)
        try:
            init = fe.ginit(g.init, g.ty)
        except Exception as e:
            sys.stderr.write('global %s init failed: %s\n' % (name, e)); init = '{0}'
        gdecl.append('extern %s%s %s;' % (tl, ct, cn)); gdef.append('%s%s %s = %s;' % (tl, ct, cn, init))
    # declared-only functions
    stubs = []
    for name, f in mod.funcs.items():
        if f.blocks is not None: continue
        cn = cname(name)
        if cn in MODELS or cn in MODEL_RENAME or name[1:].startswith('llvm.') or cn.startswith('__CPROVER') or cn.startswith('nondet_'):
            if cn.startswith('nondet_') or cn.startswith('__VERIFIER'):
                ps = ', '.join(cx.cty(t) for (t, nm, a) in f.params) or 'void'
                protos.append('%s %s(%s);' % (cx.cty(f.ret), cn, ps))
            continue
        if name not in cx.called: continue
        ps = ', '.join('%s p%d' % (cx.cty(t), i) for i, (t, nm, a) in enumerate(f.params)) or 'void'
        hdr = '%s %s(%s)' % (cx.cty(f.ret), cn, ps)
        protos.append(hdr + ';')
        if cn in opts.extern_c: continue
        if cn in BENIGN_ZERO:
            stubs.append(hdr + ' { return %s; } /* %s */' % (FnEmit(cx, f).zero(f.ret), BENIGN_ZERO[cn]))
            continue
        stubs.append(hdr + ' { __CPROVER_assert(0, "reached unmodeled external %s"); __CPROVER_assume(0); return %s; }' % (cn[:70], FnEmit(cx, f).zero(f.ret) if cx.res(f.ret).kind != 'void' else ''))
    for ti in ('_ZTISt9bad_alloc', '_ZTISt12length_error', '_ZTISt9exception', '_ZTISt12system_error', '_ZTISt11logic_error'):
        if '@' + ti not in mod.globals: gdef.append('uint8_t g_%s[8];' % ti)
    out = [PRELUDE]
    for b in sorted(cx.intwidths):
        out.append('#ifdef __CPROVER__\ntypedef unsigned __CPROVER_bitvector[%d] u%d; typedef signed __CPROVER_bitvector[%d] s%d;\n#else\ntypedef unsigned _ExtInt(%d) u%d; typedef signed _ExtInt(%d) s%d;\n#endif' % (b, b, b, b, b, b, b, b))
    x86 = x86_models(cx) if any(isinstance(h, tuple) and h[0] == 'x86' for h in cx.helpers) else ''
    helpers = ''.join(gen_helper(h) for h in sorted(cx.helpers, key=repr))
    for k in cx.aggorder: out.append(cx.aggdefs[k][1])
    for b in sorted(cx.bytes_types): out.append('typedef struct { uint8_t b[%d]; } ir2c_bytes_%d;' % (b, b))
    out.append(helpers); out.append(x86)
    out += gdecl
    out.append(MODELS_C)
    out += protos; out += gdef; out += stubs; out += bodies
    global CX_STUBBED, CX_PRUNED, CX_HOOKED, CX_NYIELD; CX_STUBBED = cx.stubbed; CX_PRUNED = cx.pruned; CX_HOOKED = cx.hooked; CX_NYIELD = cx.nyield
    return '\n'.join(out) + '\n'

if __name__ == '__main__':
    ap = argparse.ArgumentParser()
    ap.add_argument('ll'); ap.add_argument('-o', default='-')
    ap.add_argument('--threads', action='store_true'); ap.add_argument('--strict', action='store_true')
    ap.add_argument('--assume-as-assert', dest='assume_as_assert', action='store_true')
    ap.add_argument('--only', action='append'); ap.add_argument('--extern-c', dest='extern_c', action='append', default=[])
    ap.add_argument('--glue', action='append', default=[]); ap.add_argument('--stubs', default=','.join(DEFAULT_STUBS)); ap.add_argument('--max-node-type', dest='max_node_type', type=int, default=None)
    o = ap.parse_args()
    o.stubs = [x for x in o.stubs.split(',') if x]
    m = parse_module(open(o.ll).read())
    c = translate(m, o)
    for g in o.glue: c += '\n' + open(g).read()
    sys.stderr.write('stubbed: %d functions, pruned switch cases: %d\n' % (len(set(CX_STUBBED)), CX_PRUNED))
    (sys.stdout if o.o == '-' else open(o.o, 'w')).write(c)
