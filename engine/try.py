#!/usr/bin/env python3
"""scratch runner: try.py src.cpp entry [--unwind N] [-D X]... [--config base] [--cbmc-flag F]... ; prints stats and failed props"""
import sys, os, argparse, time, json
sys.path.insert(0, os.path.dirname(os.path.abspath(__file__)))
import pipeline as pl

ap = argparse.ArgumentParser()
ap.add_argument('src'); ap.add_argument('entry'); ap.add_argument('--unwind', type=int, default=10)
ap.add_argument('-D', action='append', default=[]); ap.add_argument('--config', default='base')
ap.add_argument('--flag', action='append', default=[]); ap.add_argument('--unwindset', action='append', default=[])
ap.add_argument('--checks', default='none'); ap.add_argument('--yield-in', dest='yield_in', default=None); ap.add_argument('--lb', action='append', default=[], help='regex=bound'); ap.add_argument('--object-bits', type=int, default=10)
ap.add_argument('--timeout', type=int, default=600); ap.add_argument('--mem', type=float, default=24)
ap.add_argument('--stubs', default=None); ap.add_argument('--noinline', action='append', default=[])
ap.add_argument('--max-node-type', type=int, default=None); ap.add_argument('--threads', action='store_true')
ap.add_argument('--glue', action='append', default=[]); ap.add_argument('--nondet-init', action='store_true')
ap.add_argument('--wd', default='/tmp/try'); ap.add_argument('--native', action='store_true'); ap.add_argument('--trace', action='store_true')
ap.add_argument("--vec", default=None); ap.add_argument("--extern-c", dest="extern_c", action="append", default=[]); ap.add_argument('--cdef', action='append', default=[])
a = ap.parse_args()
u = pl.Unit(a.src, a.config, defines=a.D, stubs=None if a.stubs is None else [s for s in a.stubs.split(',') if s], noinline=a.noinline,
            threads=a.threads, max_node_type=a.max_node_type, nondet_init=a.nondet_init, extra_glue=a.glue, cdefs=a.cdef, extern_c=a.extern_c, yield_in=a.yield_in)
t0 = time.time()
c = u.build(a.wd)
print('built', c, u.info, 'in %.1fs' % (time.time() - t0))
if a.vec is not None:
    vec = [int(x, 0) for x in a.vec.split(',') if x]
    g = u.build_native_gen(a.wd, a.entry); r = u.build_native_real(a.wd, a.entry)
    print('GEN :', pl.run_native(g, vec)); print('REAL:', pl.run_native(r, vec))
    sys.exit(0)
lbs = pl.loop_unwindset(c, a.entry, [(x.rsplit('=', 1)[0], int(x.rsplit('=', 1)[1])) for x in a.lb]); print('unwindset from --lb:', len(lbs))
cmd = pl.cbmc_cmd(c, a.entry, a.unwind, a.unwindset + lbs, a.flag + (['--trace'] if a.trace else []), a.object_bits, a.checks)
res = pl.run_cbmc(cmd, a.timeout, a.mem, log=os.path.join(a.wd, 'last.log'))
print('status', res['status'], 'verdict', res['verdict'], 'wall', res['wall_s'], res['stats'])
if res.get('error'): print('ERROR', res['error'])
for p in res['props']:
    if p['status'] != 'SUCCESS':
        print('  ', p['status'], p['id'], p['desc'])
        if a.trace and p.get('trace'): print('     inputs', pl.trace_inputs(p['trace']))
print(len(res['props']), 'properties')
if res['status'] != 'done': print(res.get('messages', '')[-1500:])
