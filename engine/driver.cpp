// Native driver for the *real* build of a harness (g++ against /repo's headers).
// Used (a) as the reference side of the translator validation and (b) to replay
// solver counterexamples against the real code.  Inputs: argv = input vector.
#include <cstdint>
#include <cstdio>
#include <cstdlib>
#include <cstring>
#include <new>
#include <dlfcn.h>
#include <malloc.h>
#include <pthread.h>

static std::uint64_t vec[4096];
static int vn, vpos;
static std::uint64_t nextv() { return vpos < vn ? vec[vpos++] : 0; }

static std::uint64_t alloc_count, fail_at, live_allocs, live_bytes;
static bool counting = false;

// pointer -> requested size table (no allocation inside)
static const int TBL = 1 << 16;
static void* tkeys[TBL];
static std::uint64_t tvals[TBL];
static void tput(void* p, std::uint64_t v) {
  std::uintptr_t h = (reinterpret_cast<std::uintptr_t>(p) >> 4) & (TBL - 1);
  while (tkeys[h] != nullptr && tkeys[h] != p) h = (h + 1) & (TBL - 1);
  tkeys[h] = p; tvals[h] = v;
}
static bool ttake(void* p, std::uint64_t* v) {
  std::uintptr_t h = (reinterpret_cast<std::uintptr_t>(p) >> 4) & (TBL - 1);
  while (tkeys[h] != nullptr) {
    if (tkeys[h] == p && tvals[h] != ~0ULL) { *v = tvals[h]; tvals[h] = ~0ULL; return true; }
    h = (h + 1) & (TBL - 1);
  }
  return false;
}
static bool should_fail() {
  if (!counting) return false;
  alloc_count++;
  return fail_at != 0 && alloc_count == fail_at;
}
static void note_alloc(void* p, std::uint64_t n) { if (counting && p) { live_allocs++; live_bytes += n; tput(p, n); } }
static void note_free(void* p) { std::uint64_t n; if (p && ttake(p, &n)) { live_allocs--; live_bytes -= n; } }

extern "C" {
std::uint64_t in_u64(void) { return nextv(); }
std::uint32_t in_u32(void) { return static_cast<std::uint32_t>(nextv()); }
std::uint16_t in_u16(void) { return static_cast<std::uint16_t>(nextv()); }
std::uint8_t in_u8(void) { return static_cast<std::uint8_t>(nextv()); }
void __CPROVER_assume(bool c) { if (!c) { std::printf("ASSUME-FALSE\n"); std::fflush(stdout); std::_Exit(0); } }
void __CPROVER_assert(bool c, const char* m) {
  if (!c) { std::printf("ASSERT-FAIL %s\n", m); std::fflush(stdout); std::_Exit(10); }
}
void verif_observe(std::uint64_t x) { std::printf("OBS %llx\n", static_cast<unsigned long long>(x)); }
void verif_witness(void) { std::printf("WITNESS\n"); }
void verif_fail_alloc_at(std::uint64_t k) { alloc_count = 0; fail_at = k; }
std::uint64_t verif_alloc_count(void) { return alloc_count; }
std::uint64_t verif_live_allocs(void) { return live_allocs; }
std::uint64_t verif_live_bytes(void) { return live_bytes; }
static std::uint64_t mutex_held;
std::uint64_t verif_mutex_held(void) { return mutex_held; }
static std::uint64_t mutex_foreign;    // harness: every mutex is held by another thread - lock() would wait for ever (the run ends), trylock() reports EBUSY
void verif_mutex_foreign(std::uint64_t on) { mutex_foreign = on; }
int pthread_mutex_lock(pthread_mutex_t* m) { static auto real = reinterpret_cast<int (*)(pthread_mutex_t*)>(dlsym(RTLD_NEXT, "pthread_mutex_lock")); if (mutex_foreign) { std::printf("WITNESS\nBLOCKED\n"); std::fflush(stdout); std::_Exit(0); } int r = real(m); if (r == 0) mutex_held++; return r; }
int pthread_mutex_trylock(pthread_mutex_t* m) { static auto real = reinterpret_cast<int (*)(pthread_mutex_t*)>(dlsym(RTLD_NEXT, "pthread_mutex_trylock")); if (mutex_foreign) return 16; int r = real(m); if (r == 0) mutex_held++; return r; }
int pthread_mutex_unlock(pthread_mutex_t* m) { static auto real = reinterpret_cast<int (*)(pthread_mutex_t*)>(dlsym(RTLD_NEXT, "pthread_mutex_unlock")); int r = real(m); if (r == 0) mutex_held--; return r; }

int posix_memalign(void** out, size_t al, size_t n) {
  if (should_fail()) return 12;
  void* p = aligned_alloc(al, (n + al - 1) / al * al);
  if (!p) return 12;
  note_alloc(p, n); *out = p; return 0;
}
}
void* operator new(std::size_t n) {
  if (should_fail()) throw std::bad_alloc{};
  void* p = std::malloc(n ? n : 1);
  if (!p) throw std::bad_alloc{};
  note_alloc(p, n); return p;
}
void operator delete(void* p) noexcept { note_free(p); std::free(p); }
void operator delete(void* p, std::size_t) noexcept { note_free(p); std::free(p); }

// free() of posix_memalign'ed blocks goes straight to libc; account for it via a wrapper symbol
#ifndef VERIF_NO_WRAP
extern "C" void __real_free(void*);
extern "C" void __wrap_free(void* p) { note_free(p); __real_free(p); }
#endif

#ifndef VERIF_ENTRY
#error "define VERIF_ENTRY"
#endif
extern "C" void VERIF_ENTRY(void);
int main(int argc, char** argv) {
  for (int i = 1; i < argc && vn < 4096; i++) vec[vn++] = std::strtoull(argv[i], nullptr, 0);
  counting = true;
  VERIF_ENTRY();
  std::printf("END\n");
  std::fflush(stdout);
  std::_Exit(0);
}
