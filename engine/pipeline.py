#!/usr/bin/env python3
"""Build/solve pipeline: harness.cpp --clang--> IR --ir2c--> C --cbmc--> verdicts.

Everything is regenerated from /repo's working tree on every run; nothing is cached
across runs (the work dir is wiped at start)."""
import os, re, sys, json, subprocess, time, hashlib, shutil, resource, types

HERE = os.path.dirname(os.path.abspath(__file__))
VERIF = os.path.dirname(HERE)
REPO = os.environ.get('VERIF_REPO', '/repo')
sys.path.insert(0, HERE)
import irparse, ir2c

CLANG = 'clang++-14'
OPT = 'opt-14'

# Build configurations (the repository's own baseline is 'base': see _build/compile_commands.json)
COMMON = ['-std=c++20', '-I' + REPO, '-I' + os.path.join(VERIF, 'harness'), '-Wno-everything']
CONFIGS = {
    'base':   ['-mavx2', '-DNDEBUG', '-DUNODB_DETAIL_WITH_STATS', '-DUNODB_SPINLOCK_LOOP_VALUE=1'],
    'sse':    ['-msse4.1', '-DNDEBUG', '-DUNODB_DETAIL_WITH_STATS', '-DUNODB_SPINLOCK_LOOP_VALUE=1'],
    'debug':  ['-mavx2', '-UNDEBUG', '-DUNODB_DETAIL_WITH_STATS', '-DUNODB_SPINLOCK_LOOP_VALUE=1'],
    'ssedebug': ['-msse4.1', '-UNDEBUG', '-DUNODB_DETAIL_WITH_STATS', '-DUNODB_SPINLOCK_LOOP_VALUE=1'],
    'nostats': ['-mavx2', '-DNDEBUG', '-DUNODB_SPINLOCK_LOOP_VALUE=1'],
    'nsdebug': ['-mavx2', '-UNDEBUG', '-DUNODB_SPINLOCK_LOOP_VALUE=1'],
    'spin0':  ['-mavx2', '-DNDEBUG', '-DUNODB_DETAIL_WITH_STATS', '-DUNODB_SPINLOCK_LOOP_VALUE=0'],
}

DEFAULT_NOINLINE = [r'@_ZN?K?5unodb6detail14basic_node_ptr[^(]*(7tag_ptr|4typeEv|3ptrI)']
EXTERN_C = ['in_u64', 'in_u32', 'in_u16', 'in_u8', 'verif_observe', 'verif_witness', 'verif_fail_alloc_at',
            'verif_alloc_count', 'verif_live_allocs', 'verif_live_bytes', 'verif_mutex_held', 'verif_mutex_foreign', 'verif_yield_arm', 'verif_yield_disarm', 'verif_yield_fired', 'verif_yield_seen']


class BuildError(Exception):
    pass


def run(cmd, **kw):
    return subprocess.run(cmd, capture_output=True, text=True, **kw)


def sh_quote(a):
    return "'" + a.replace("'", "'\\''") + "'"


def repo_fingerprint():
    """hash of the working-tree sources the harnesses include"""
    h = hashlib.sha256()
    for fn in sorted(os.listdir(REPO)):
        if fn.endswith(('.hpp', '.cpp')):
            h.update(fn.encode()); h.update(open(os.path.join(REPO, fn), 'rb').read())
    return h.hexdigest()[:16]


class Unit:
    """One translation unit: harness source x build config x translator options."""

    def __init__(self, src, config='base', defines=(), stubs=None, noinline=(), threads=False,
                 max_node_type=None, nondet_init=False, extra_glue=(), assume_as_assert=False, extern_c=(),
                 alwaysinline=(), opt_level='-O1', cdefs=(), entry_hooks=(), yield_in=None):
        self.src = src if os.path.isabs(src) else os.path.join(VERIF, 'harness', src)
        self.config = config
        self.defines = list(defines)
        self.stubs = list(ir2c.DEFAULT_STUBS if stubs is None else stubs)
        self.noinline = list(noinline)
        self.alwaysinline = list(alwaysinline)
        self.threads = threads
        self.max_node_type = max_node_type
        self.nondet_init = nondet_init
        self.extra_glue = list(extra_glue)
        self.assume_as_assert = assume_as_assert
        self.extern_c = list(extern_c)
        self.opt_level = opt_level
        self.cdefs = list(cdefs)
        self.entry_hooks = [list(x) for x in entry_hooks]
        self.yield_in = yield_in
        key = json.dumps([self.src, config, self.defines, self.stubs, self.noinline, self.alwaysinline, threads, max_node_type,
                          nondet_init, self.extra_glue, assume_as_assert, self.extern_c, opt_level, self.cdefs, self.entry_hooks, yield_in], sort_keys=True)
        self.key = os.path.splitext(os.path.basename(src))[0] + '-' + config + '-' + hashlib.sha1(key.encode()).hexdigest()[:8]
        self.built = False
        self.info = {}

    def flags(self):
        return COMMON + CONFIGS[self.config] + ['-D' + d for d in self.defines]

    def build(self, wd):
        """clang -> tag -> opt -> ir2c; returns path of generated C"""
        if self.built:
            return self.cfile
        os.makedirs(wd, exist_ok=True)
        base = os.path.join(wd, self.key)
        raw, ll, cfile = base + '.raw.ll', base + '.ll', base + '.c'
        t0 = time.time()
        r = run([CLANG] + self.flags() + [self.opt_level, '-Xclang', '-disable-llvm-passes', '-S', '-emit-llvm', self.src, '-o', raw])
        if r.returncode != 0:
            raise BuildError('clang failed for %s:\n%s' % (self.src, r.stderr[-3000:]))
        # tag stub targets noinline so the translator can replace them by name
        pats = DEFAULT_NOINLINE + self.noinline
        lines = open(raw).read().split('\n')
        ntag = 0
        for i, l in enumerate(lines):
            if not l.startswith('define '):
                continue
            if any(re.search(q, l) for q in pats):
                l2 = re.sub(r'\) (local_unnamed_addr |unnamed_addr )?(#\d+)', lambda m: ') ' + (m.group(1) or '') + 'noinline ' + m.group(2), l, count=1)
                if l2 == l:
                    l2 = l[:-1] + 'noinline {'
                lines[i] = l2.replace('alwaysinline', ''); ntag += 1
            elif self.alwaysinline and any(re.search(q, l) for q in self.alwaysinline):
                l2 = re.sub(r'\) (local_unnamed_addr |unnamed_addr )?(#\d+)', lambda m: ') ' + (m.group(1) or '') + 'alwaysinline ' + m.group(2), l, count=1)
                lines[i] = l2.replace('noinline', '')
        open(raw, 'w').write('\n'.join(lines))
        r = run([OPT, self.opt_level, '-vectorize-loops=false', '-vectorize-slp=false', '-unroll-threshold=0',
                 '-simplifycfg-sink-common=false', '-S', raw, '-o', ll])
        if r.returncode != 0:
            raise BuildError('opt failed: ' + r.stderr[-2000:])
        t1 = time.time()
        mod = irparse.parse_module(open(ll).read())
        opts = types.SimpleNamespace(threads=self.threads, strict=True, assume_as_assert=self.assume_as_assert, only=None,
                                     extern_c=EXTERN_C + self.extern_c, stubs=self.stubs, max_node_type=self.max_node_type, entry_hooks=self.entry_hooks, yield_in=self.yield_in)
        c = ir2c.translate(mod, opts)
        if self.nondet_init:
            c = '#define IR2C_NONDET_INIT 1\n' + c
        for d in self.cdefs:
            c = '#define %s\n' % d.replace('=', ' ', 1) + c
        for g in [os.path.join(HERE, 'glue.c')] + self.extra_glue:
            c += '\n' + open(g if os.path.isabs(g) else os.path.join(VERIF, 'harness', g)).read()
        open(cfile, 'w').write(c)
        self.cfile = cfile; self.ll = ll; self.mod = mod
        self.dem = ir2c.demangle([ir2c.cname(n) for n in mod.funcs])
        self.info = {'ir_sha': hashlib.sha1(open(ll, 'rb').read()).hexdigest()[:12], 'ir_lines': sum(1 for _ in open(ll)),
                     'clang_s': round(t1 - t0, 2), 'ir2c_s': round(time.time() - t1, 2), 'stubbed': sorted(set(ir2c.CX_STUBBED)),
                     'pruned_switch_cases': ir2c.CX_PRUNED, 'noinline_tagged': ntag, 'entry_hooked': sorted(set(ir2c.CX_HOOKED)), 'yield_points': ir2c.CX_NYIELD}
        self.built = True
        return cfile

    def reachable_functions(self, entry):
        """demangled names of IR functions (with bodies) reachable from entry"""
        mod = self.mod
        seen = set(); todo = ['@' + entry]; out = []
        while todo:
            n = todo.pop()
            if n in seen or n not in mod.funcs:
                continue
            seen.add(n)
            f = mod.funcs[n]
            if f.blocks is None:
                continue
            out.append(self.dem.get(ir2c.cname(n), n))
            for lbl, rows in f.blocks:
                for ins in rows:
                    if ins.op in ('call', 'invoke') and ins.callee.kind == 'global':
                        todo.append(ins.callee.name)
                    for a in getattr(ins, 'args', []) or []:
                        if a.kind == 'global' and a.name in mod.funcs:
                            todo.append(a.name)
        return sorted(out)

    # ---- native builds (translator validation / replay)
    def build_native_gen(self, wd, entry):
        exe = os.path.join(wd, self.key + '.' + entry + '.gen')
        if os.path.exists(exe):
            return exe
        r = run(['clang-14', '-O1', '-w', '-fwrapv', '-fno-strict-aliasing', '-DVERIF_ENTRY_PROTO=void %s(void)' % entry,
                 '-DVERIF_ENTRY_CALL=%s()' % entry, self.cfile, '-o', exe])
        if r.returncode != 0:
            raise BuildError('native gcc build of generated C failed:\n' + r.stderr[-3000:])
        return exe

    def build_native_real(self, wd, entry, sanitize=False):
        exe = os.path.join(wd, self.key + '.' + entry + ('.asan' if sanitize else '') + '.real')
        if os.path.exists(exe):
            return exe
        obj = os.path.join(wd, self.key + ('.asan' if sanitize else '') + '.real.o')
        san = ['-fsanitize=address,undefined', '-fno-sanitize-recover=all'] if sanitize else []
        if not os.path.exists(obj):
            r = run(['g++'] + self.flags() + ['-O1', '-g0', '-w', '-DVERIF_NATIVE_REAL'] + san + ['-c', self.src, '-o', obj])
            if r.returncode != 0:
                raise BuildError('g++ build of harness failed:\n' + r.stderr[-3000:])
        wrap = [] if sanitize else ['-Wl,--wrap=free']
        r = run(['g++', '-std=c++20', '-O1', '-w', '-DVERIF_ENTRY=' + entry] + san + (['-DVERIF_NO_WRAP'] if sanitize else []) +
                [os.path.join(HERE, 'driver.cpp'), obj, '-o', exe, '-ldl', '-lpthread'] + wrap)
        if r.returncode != 0:
            raise BuildError('g++ link of real harness failed:\n' + r.stderr[-3000:])
        return exe


def run_native(exe, vec, timeout=60):
    try:
        r = run([exe] + [str(v) for v in vec], timeout=timeout)
    except subprocess.TimeoutExpired:
        return {'rc': -1, 'out': 'TIMEOUT'}
    return {'rc': r.returncode, 'out': r.stdout.strip(), 'err': r.stderr.strip()[-2000:]}


# ---------------------------------------------------------------- CBMC

def _limits(mem_gb):
    def f():
        resource.setrlimit(resource.RLIMIT_AS, (int(mem_gb * (1 << 30)), int(mem_gb * (1 << 30))))
        os.setsid()
    return f


_loops_cache = {}


def loop_unwindset(cfile, entry, loop_bounds):
    """loop_bounds: [(regex on demangled function name, bound)] -> ['loopid:bound', ...] for every loop of matching functions (first match wins)"""
    if not loop_bounds:
        return []
    key = (cfile, entry)
    if key not in _loops_cache:
        r = run(['cbmc', cfile, '--function', entry, '--drop-unused-functions', '--show-loops', '--json-ui'])
        names = []
        try:
            for item in json.loads(r.stdout):
                for l in item.get('loops', []) if isinstance(item, dict) else []:
                    names.append(l['name'])
        except Exception:
            names = re.findall(r'"name": "([^"]+)"', r.stdout)
        fns = sorted(set(n.rsplit('.', 1)[0] for n in names))
        dem = ir2c.demangle(fns)
        _loops_cache[key] = [(n, dem.get(n.rsplit('.', 1)[0], n)) for n in names]
    out = []
    for name, d in _loops_cache[key]:
        for rx, b in loop_bounds:
            if re.search(rx, d):
                out.append('%s:%d' % (name, b)); break
    return out


def cbmc_cmd(cfile, entry, unwind, unwindset=(), flags=(), object_bits=10, checks='none'):
    cmd = ['cbmc', cfile, '--function', entry, '--unwind', str(unwind), '--unwinding-assertions', '--drop-unused-functions',
           '--object-bits', str(object_bits), '--json-ui', '--verbosity', '8']
    if unwindset:
        cmd += ['--unwindset', ','.join(unwindset)]
    if checks == 'none':
        cmd += ['--no-standard-checks', '--no-malloc-may-fail']
    elif checks == 'pointer':
        cmd += ['--no-standard-checks', '--no-malloc-may-fail', '--pointer-check', '--bounds-check']
    elif checks == 'standard':
        cmd += ['--no-malloc-may-fail']
    cmd += list(flags)
    return cmd


def parse_cbmc_json(text):
    """returns dict(props=[{id,desc,status,loc}], stats={...}, error=..)"""
    try:
        data = json.loads(text)
    except Exception:
        # truncated output (killed): try to salvage
        try:
            data = json.loads(text.rstrip().rstrip(',') + ']')
        except Exception:
            return {'props': [], 'stats': {}, 'error': 'unparseable cbmc output', 'verdict': None, 'messages': text[-2000:]}
    props = []; stats = {}; verdict = None; msgs = []
    for item in data:
        if 'result' in item:
            for p in item['result']:
                props.append({'id': p.get('property'), 'desc': p.get('description'), 'status': p.get('status'),
                              'line': (p.get('sourceLocation') or {}).get('line'), 'function': (p.get('sourceLocation') or {}).get('function'),
                              'trace': p.get('trace')})
        if 'cProverStatus' in item:
            verdict = item['cProverStatus']
        if 'messageText' in item:
            t = item['messageText']; msgs.append(t)
            m = re.search(r'size of program expression: (\d+) steps', t)
            if m: stats['symex_steps'] = int(m.group(1))
            m = re.search(r'Generated (\d+) VCC\(s\), (\d+) remaining after simplification', t)
            if m: stats['vccs'] = int(m.group(1)); stats['vccs_nontrivial'] = int(m.group(2))
            m = re.search(r'(\d+) variables, (\d+) clauses', t)
            if m: stats['sat_vars'] = max(stats.get('sat_vars', 0), int(m.group(1))); stats['sat_clauses'] = max(stats.get('sat_clauses', 0), int(m.group(2)))
            m = re.search(r'Runtime Symex: ([0-9.e+-]+)s', t)
            if m: stats['symex_s'] = float(m.group(1))
            m = re.search(r'Runtime decision procedure: ([0-9.e+-]+)s', t)
            if m: stats['solver_s'] = round(stats.get('solver_s', 0) + float(m.group(1)), 3)
            m = re.search(r'Runtime Solver: ([0-9.e+-]+)s', t)
            if m: stats['sat_s'] = round(stats.get('sat_s', 0) + float(m.group(1)), 3)
    err = None
    for t in msgs:
        if 'PARSING ERROR' in t or 'CONVERSION ERROR' in t or 'unsound' in t or 'Invariant' in t:
            err = t
    return {'props': props, 'stats': stats, 'verdict': verdict, 'error': err, 'messages': '\n'.join(msgs[-12:])}


def run_cbmc(cmd, timeout, mem_gb, log=None):
    t0 = time.time()
    p = subprocess.Popen(cmd, stdout=subprocess.PIPE, stderr=subprocess.PIPE, text=True, preexec_fn=_limits(mem_gb))
    try:
        out, err = p.communicate(timeout=timeout)
        status = 'done'
    except subprocess.TimeoutExpired:
        try:
            os.killpg(p.pid, 9)
        except Exception:
            p.kill()
        out, err = p.communicate()
        status = 'timeout'
    wall = time.time() - t0
    if log:
        open(log, 'w').write(' '.join(sh_quote(c) for c in cmd) + '\n' + out + '\n--- stderr ---\n' + err)
    res = parse_cbmc_json(out)
    res['wall_s'] = round(wall, 2); res['status'] = status; res['rc'] = p.returncode
    if status == 'done' and p.returncode not in (0, 10):
        res['status'] = 'error'
        if 'bad_alloc' in err or 'Out of memory' in err or p.returncode in (-9, -6, 134, 137):
            res['status'] = 'oom'
    return res


def trace_inputs(trace):
    """ordered values returned by in_*() in a counterexample trace"""
    vec = []
    for st in trace or []:
        if st.get('stepType') != 'assignment':
            continue
        fn = (st.get('sourceLocation') or {}).get('function', '')
        if fn in ('in_u64', 'in_u32', 'in_u16', 'in_u8') and st.get('lhs') == 'v' and not st.get('hidden'):
            val = st.get('value', {})
            b = val.get('binary')
            if b is not None:
                vec.append(int(b, 2))
            else:
                d = val.get('data', '0')
                try:
                    vec.append(int(d, 0))
                except Exception:
                    vec.append(0)
    return vec
