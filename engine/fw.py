#!/usr/bin/env python3
"""Check framework: queries -> parallel CBMC runs -> classification -> replay -> evidence."""
import os, sys, json, time, shutil, random, re, traceback, subprocess
from concurrent.futures import ThreadPoolExecutor
import pipeline as pl

VERIF = pl.VERIF
WITNESS_DESC = 'WITNESS end of harness reachable'
KNOWN_FILE = os.path.join(VERIF, 'known_findings.txt')

TIER_CAPS = {  # per-query caps: (timeout s, address-space GB)
    'quick': (900, 20),
    'thorough': (3600, 40),
    'deep': (7200, 56),
}


class Query:
    def __init__(self, name, unit, entry, unwind=10, unwindset=(), flags=(), object_bits=10, checks='none',
                 tier='quick', replay='native', bounds=None, about='', known=None, expect_witness=True,
                 mutate_vectors=4, timeout=None, mem_gb=None, expect_fail=(), loop_bounds=(), weight=1, trace=True):
        self.name = name; self.unit = unit; self.entry = entry; self.unwind = unwind
        self.unwindset = list(unwindset); self.flags = list(flags); self.object_bits = object_bits
        self.checks = checks; self.tier = tier; self.replay = replay
        self.bounds = bounds or {}; self.about = about
        self.known = known          # id of a known finding this query is the reproducer of (failure expected while the defect exists)
        self.expect_witness = expect_witness
        self.mutate_vectors = mutate_vectors
        self.timeout = timeout; self.mem_gb = mem_gb
        self.expect_fail = list(expect_fail)
        self.loop_bounds = list(loop_bounds)
        self.trace = trace         # ask CBMC for traces (witness vector for the differential run); building a trace can dominate for big instances
        self.weight = weight       # share of the parallel job slots this query occupies (memory-hungry queries: > 1)   # descriptions of further assertions that must FAIL (reachability twins)


def load_known():
    known = {}; fixed = []
    if os.path.exists(KNOWN_FILE):
        for line in open(KNOWN_FILE):
            line = line.strip()
            if line.startswith('known:'):
                m = re.match(r'known:\s+property=(\S+)\s+id=(\S+)\s+(.*)', line)
                if m:
                    known[m.group(2)] = (m.group(1), m.group(3))
            elif line.startswith('fixed:'):
                fixed.append(line)
    return known, fixed


class Check:
    def __init__(self, pid, level, queries, assumptions=(), explanation='', jobs=None):
        self.pid = pid; self.level = level; self.queries = queries
        self.assumptions = list(assumptions); self.explanation = explanation
        self.jobs = jobs

    def run(self, tier, seed):
        t_start = time.time()
        wd = os.path.join(VERIF, '_work', self.pid + ('' if pl.REPO == '/repo' else '-' + re.sub(r'[^A-Za-z0-9]', '_', pl.REPO)))
        shutil.rmtree(wd, ignore_errors=True)
        os.makedirs(os.path.join(wd, 'replay'), exist_ok=True)
        rnd = random.Random(seed)
        # tiers: quick < thorough < deep.  'deep' queries were measured to need most of the machine for 10-60 min EACH (one at a time); they are
        # not part of any registered command and exist for manual runs (--tier deep --only <regex>).
        qs = [q for q in self.queries if q.tier == 'quick' or (tier == 'thorough' and q.tier != 'deep') or tier == 'deep']
        known, fixed = load_known()
        cap_t, cap_m = TIER_CAPS[tier]
        jobs = int(os.environ['VERIF_JOBS']) if os.environ.get('VERIF_JOBS') else (self.jobs or 8)     # schedule-enumeration checks (hundreds of small runs) ask for 14 of the 16 cores
        fp = pl.repo_fingerprint()

        # 1. build units
        units = {}
        for q in qs:
            units[q.unit.key] = q.unit
        errors = []

        def build(u):
            try:
                u.build(wd)
            except Exception as e:
                return (u, ''.join(traceback.format_exception_only(type(e), e)))
            return (u, None)
        with ThreadPoolExecutor(max_workers=jobs) as ex:
            for u, err in ex.map(build, units.values()):
                if err:
                    errors.append('build of %s failed: %s' % (u.key, err))
        if errors:
            for e in errors:
                print('ERROR: ' + e)
            self.write_evidence(tier, seed, [], time.time() - t_start, fp, errors, 0, [])
            return 2

        # 2. solve
        def squeeze(path):      # JSON traces of the witness run to tens of MB per query: keep them compressed
            try:
                if os.path.getsize(path) > (1 << 20):
                    subprocess.run(['gzip', '-f', path], check=False)
            except OSError:
                pass

        def solve(q):
            cmd = pl.cbmc_cmd(q.unit.cfile, q.entry, q.unwind, q.unwindset + pl.loop_unwindset(q.unit.cfile, q.entry, q.loop_bounds), q.flags + (['--trace'] if q.trace else []), q.object_bits, q.checks)
            res = pl.run_cbmc(cmd, q.timeout or cap_t, q.mem_gb or cap_m, log=os.path.join(wd, q.name + '.cbmc.log'))
            squeeze(os.path.join(wd, q.name + '.cbmc.log'))
            res['cmd'] = ' '.join(pl.sh_quote(c) for c in cmd)
            # A per-loop bound is an optimisation keyed on inlining decisions.  If ONLY unwinding assertions fail, the bound may simply
            # have landed on another loop (different inlining after a source change): decide again with the relaxed global bound.
            bad = [p for p in res.get('props', []) if p['status'] != 'SUCCESS' and p['desc'] != WITNESS_DESC and p['desc'] not in q.expect_fail]
            if res['status'] == 'done' and bad and all((p['desc'] or '').startswith('unwinding assertion') for p in bad) and (q.loop_bounds or q.unwindset):
                cmd2 = pl.cbmc_cmd(q.unit.cfile, q.entry, max(q.unwind, 12), [], q.flags + ['--trace'], q.object_bits, q.checks)
                res2 = pl.run_cbmc(cmd2, q.timeout or cap_t, q.mem_gb or cap_m, log=os.path.join(wd, q.name + '.relaxed.cbmc.log'))
                squeeze(os.path.join(wd, q.name + '.relaxed.cbmc.log'))
                res2['cmd'] = ' '.join(pl.sh_quote(c) for c in cmd2)
                res2['relaxed_bounds'] = True
                return q, res2
            return q, res
        results = []
        import threading
        cv = threading.Condition(); free = [jobs]

        def solve_w(q):
            w = min(q.weight, jobs)
            with cv:
                while free[0] < w:
                    cv.wait()
                free[0] -= w
            try:
                return solve(q)
            finally:
                with cv:
                    free[0] += w
                    cv.notify_all()
        order = sorted(qs, key=lambda q: -q.weight)
        with ThreadPoolExecutor(max_workers=min(max(jobs, len(order)), 256)) as ex:     # waiting for permits costs nothing; the permits are the limit
            for q, res in ex.map(solve_w, order):
                results.append((q, res))
        results.sort(key=lambda qr: qs.index(qr[0]))

        # 2b. the native binaries of the differential run (generated C with clang, real harness with g++) are built per entry: do that in parallel
        def prebuild(q):
            try:
                q.unit.build_native_gen(wd, q.entry); q.unit.build_native_real(wd, q.entry)
            except Exception:
                pass        # reported by differential() below
        todo = [q for q, res in results if q.replay in ('native', 'asan') and res.get('status') == 'done'
                and any(p['desc'] == WITNESS_DESC and p.get('trace') for p in res.get('props', []))]
        firsts = {}
        for q in todo:
            firsts.setdefault(q.unit.key, q)          # the shared object file of a unit is built once, by one thread
        with ThreadPoolExecutor(max_workers=jobs) as ex:
            list(ex.map(prebuild, firsts.values()))
        with ThreadPoolExecutor(max_workers=jobs) as ex:
            list(ex.map(prebuild, todo))

        # 3. classify
        violations = []; known_lines = []; records = []; validated = 0
        for q, res in results:
            rec = {'query': q.name, 'entry': q.entry, 'unit': q.unit.key, 'config': q.unit.config, 'about': q.about,
                   'bounds': dict(q.bounds, unwind=q.unwind, unwindset=q.unwindset, loop_bounds=q.loop_bounds, object_bits=q.object_bits),
                   'stats': res['stats'], 'wall_s': res['wall_s'], 'status': res['status'], 'ir': q.unit.info, 'relaxed_bounds': res.get('relaxed_bounds', False)}
            records.append(rec)
            if res['status'] != 'done' or res.get('error') or not res['props']:
                rec['outcome'] = 'inconclusive'
                errors.append('query %s inconclusive: status=%s %s' % (q.name, res['status'], (res.get('error') or res.get('messages', ''))[-400:]))
                continue
            props = res['props']
            wit = [p for p in props if p['desc'] == WITNESS_DESC]
            expf = [p for p in props if p['desc'] in q.expect_fail]
            real = [p for p in props if p['desc'] != WITNESS_DESC and p['desc'] not in q.expect_fail and self.mine(p['desc'])]
            failed = [p for p in real if p['status'] != 'SUCCESS']
            rec['assertions'] = len(real); rec['assertions_failed'] = len(failed)
            rec['assertion_texts'] = sorted(set(p['desc'] for p in real if not p['desc'].startswith('unwinding assertion')))[:60]
            rec['unwinding_assertions'] = sum(1 for p in real if (p['desc'] or '').startswith('unwinding assertion'))
            wit_ok = (not q.expect_witness) or (wit and any(p['status'] == 'FAILURE' for p in wit))
            expf_ok = all(p['status'] == 'FAILURE' for p in expf) and len(set(p['desc'] for p in expf)) == len(set(q.expect_fail))
            rec['witness_reached'] = bool(wit and any(p['status'] == 'FAILURE' for p in wit))
            # differential validation on the witness trace
            wvec = None
            for p in wit:
                if p.get('trace'):
                    wvec = pl.trace_inputs(p['trace'])
            if wvec is not None and q.replay in ('native', 'asan') and not failed:
                ok, detail = self.differential(q, wd, wvec, rnd)
                rec['differential'] = detail
                if ok:
                    validated += detail.get('vectors', 0)
                else:
                    errors.append('query %s: generated C and real build disagree: %s' % (q.name, json.dumps(detail)[:600]))
            if not failed:
                if q.known:
                    rec['outcome'] = 'known-finding-not-reproduced'   # defect gone (e.g. fixed): nothing to report
                elif not wit_ok or not expf_ok:
                    rec['outcome'] = 'vacuous'
                    errors.append('query %s: reachability witness not reached (vacuous pass)' % q.name)
                else:
                    rec['outcome'] = 'holds'
                continue
            # failures
            p0 = failed[0]
            vec = pl.trace_inputs(p0.get('trace')) if p0.get('trace') else []
            rp = {'property': self.pid, 'query': q.name, 'entry': q.entry, 'harness': q.unit.src, 'config': q.unit.config,
                  'defines': q.unit.defines, 'failed_assertions': [{'desc': p['desc'], 'id': p['id']} for p in failed][:20],
                  'inputs': vec, 'cbmc_cmd': res['cmd']}
            native = None
            if q.replay in ('native', 'asan'):
                try:
                    exe = q.unit.build_native_real(wd, q.entry, sanitize=(q.replay == 'asan'))
                    native = pl.run_native(exe, vec)
                    rp['native_replay'] = {'cmd': exe + ' ' + ' '.join(str(v) for v in vec), 'rc': native['rc'], 'out': native['out'][-1500:], 'err': native.get('err', '')[-1500:]}
                    rp['reproduced_on_real_build'] = native['rc'] != 0
                except Exception as e:
                    rp['native_replay'] = {'error': str(e)[-1500:]}
            rpath = os.path.join(wd, 'replay', q.name + '.json')
            json.dump(rp, open(rpath, 'w'), indent=1)
            rec['replay'] = rpath; rec['failed'] = [p['desc'] for p in failed][:10]
            rec['counterexample_inputs'] = vec[:64]
            rec['reproduced_on_real_build'] = rp.get('reproduced_on_real_build')
            if q.known and q.known in known and known[q.known][0] == self.pid:
                rec['outcome'] = 'known-finding'
                known_lines.append('KNOWN-FINDING: property=%s id=%s %s' % (self.pid, q.known, known[q.known][1]))
            else:
                rec['outcome'] = 'violated'
                violations.append((q, rpath, failed, rp))

        # 4. report
        for l in known_lines:
            print(l)
        for q, rpath, failed, rp in violations:
            tag = ''
            if rp.get('reproduced_on_real_build') is False:
                tag = ' (solver counterexample; native replay of the real build did not abort - see replay file)'
            print('query %s: %s%s' % (q.name, '; '.join(sorted(set(p['desc'] for p in failed)))[:400], tag))
            print('VIOLATION property=%s replay=%s' % (self.pid, rpath))
        for e in errors:
            print('ERROR: ' + e)
        wall = time.time() - t_start
        self.write_evidence(tier, seed, records, wall, fp, errors, len(violations), known_lines, validated)
        nh = sum(1 for r in records if r.get('outcome') == 'holds')
        print('%s [%s]: %d queries, %d hold, %d violated, %d known findings, %d inconclusive/errors, %.1fs' %
              (self.pid, tier, len(records), nh, len(violations), len(known_lines), len(errors), wall))
        if violations:
            return 1
        if errors:
            return 2
        return 0

    def mine(self, desc):
        """assertion texts may start with a property tag 'C11: ' or 'C11/C15: '; untagged ones belong to every check"""
        m = re.match(r'^(C\d\d(?:/C\d\d)*): ', desc or '')
        return (not m) or self.pid in m.group(1).split('/')

    def differential(self, q, wd, wvec, rnd):
        """run the witness vector (and mutated variants) through gcc(generated C) and g++(real harness); outputs must agree"""
        try:
            gen = q.unit.build_native_gen(wd, q.entry)
            real = q.unit.build_native_real(wd, q.entry)
        except Exception as e:
            return False, {'error': str(e)[-800:]}
        vecs = [list(wvec)]
        for i in range(q.mutate_vectors):
            v = list(wvec)
            if v:
                for _ in range(1 + rnd.randrange(2)):
                    j = rnd.randrange(len(v))
                    v[j] = rnd.choice([0, 1, 0x7f, 0x80, 0xff, v[j] ^ (1 << rnd.randrange(64)), rnd.getrandbits(64), v[j] + 1])
            vecs.append(v)
        n = 0
        for i, v in enumerate(vecs):
            a = pl.run_native(gen, v); b = pl.run_native(real, v)
            if a['out'] != b['out'] or (a['rc'] == 0) != (b['rc'] == 0):
                return False, {'vector': v, 'generated': a, 'real': b}
            if i == 0 and ('WITNESS' not in b['out'] or b['rc'] != 0):
                return False, {'vector': v, 'real': b, 'note': 'witness vector does not reach the end of the harness on the real build'}
            n += 1
        return True, {'vectors': n, 'witness_vector': wvec[:32]}

    def write_evidence(self, tier, seed, records, wall, fp, errors, nviol, known_lines, validated=0):
        funcs = set()
        for q in self.queries:
            if q.unit.built:
                try:
                    for f in q.unit.reachable_functions(q.entry):
                        if 'unodb' in f:
                            funcs.add(re.sub(r'\s+', ' ', f)[:160])
                except Exception:
                    pass
        nass = sum(r.get('assertions', 0) for r in records)
        texts = set()
        for r in records:
            if r.get('outcome') in ('holds', 'known-finding', 'violated'):
                for t in r.get('assertion_texts', []):
                    texts.add((r['entry'], t))
        stats = lambda k: sum((r.get('stats') or {}).get(k, 0) for r in records)
        samples = []
        for r in records[:40]:
            samples.append({k: r.get(k) for k in ('query', 'entry', 'config', 'about', 'bounds', 'outcome', 'stats', 'wall_s', 'witness_reached',
                                                  'differential', 'failed', 'counterexample_inputs', 'reproduced_on_real_build') if r.get(k) is not None})
        ev = {
            'property_id': self.pid, 'tier': tier, 'seed': seed, 'level': self.level,
            'coverage': {
                'evaluations': max(nass, 0),
                'distinct_nontrivial': len(texts),
                'rule': 'one evaluation = one assertion instance (after loop unwinding/inlining) decided by the SAT back end of CBMC over ALL values of the symbolic inputs within the stated bounds; '
                        'distinct_nontrivial = number of distinct (harness, property text) pairs among them, unwinding assertions and reachability witnesses excluded',
                'samples': samples,
                'traces_validated_against_impl': validated,
                'queries': len(records),
                'queries_hold': sum(1 for r in records if r.get('outcome') == 'holds'),
                'queries_violated': nviol,
                'queries_known_finding': len(known_lines),
                'queries_inconclusive': sum(1 for r in records if r.get('outcome') in ('inconclusive', 'vacuous')),
                'symex_steps': stats('symex_steps'), 'sat_vars': stats('sat_vars'), 'sat_clauses': stats('sat_clauses'),
                'solver_s': round(stats('solver_s'), 2),
                'functions_encoded': sorted(funcs)[:400],
                'functions_encoded_count': len(funcs),
                'repo_fingerprint': fp,
                'explanation': self.explanation,
                'exhaustive': False,
                'errors': errors[:20],
                'known_findings': known_lines,
            },
            'assumptions': self.assumptions + [
                'encoding: clang++-14 -O1 IR of the harness + real unodb headers from /repo working tree, lowered by /verif/engine/ir2c.py to C, decided by CBMC 6.11 (SAT) with --unwinding-assertions',
                'environment models (engine/ir2c.py MODELS_C): malloc/posix_memalign/operator new never fail unless the harness arms the fault index; byte-loop memcpy/memmove/memset/memcmp; abort/terminate/escape from noexcept = assertion failure',
                'heap and stack objects are zero-initialised in the encoding (reads of uninitialised memory are not detected)',
                'sequentially consistent memory; x86-64 data layout',
            ],
            'wall_s': round(wall, 2), 'violations': nviol,
        }
        # evidence/ describes /repo itself; a run against another checkout (VERIF_REPO=<seeded worktree>) must not overwrite it
        evdir = os.path.join(VERIF, 'evidence') if os.path.realpath(pl.REPO) == '/repo' else os.path.join(VERIF, '_work', 'evidence_other_repo')
        os.makedirs(evdir, exist_ok=True)
        json.dump(ev, open(os.path.join(evdir, self.pid + '.json'), 'w'), indent=1)
