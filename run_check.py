#!/usr/bin/env python3
"""usage: run_check.py <property id> [--tier quick|thorough] [--only <query regex>] [--list]"""
import os, sys, argparse, re
sys.path.insert(0, os.path.join(os.path.dirname(os.path.abspath(__file__)), 'engine'))
import checks

def main():
    ap = argparse.ArgumentParser()
    ap.add_argument('pid'); ap.add_argument('--tier', default=os.environ.get('VERIF_TIER', 'quick'))
    ap.add_argument('--only', default=None); ap.add_argument('--list', action='store_true')
    a = ap.parse_args()
    seed = int(os.environ.get('VERIF_SEED', '1'))
    chk = checks.get(a.pid)
    if a.only:
        chk.queries = [q for q in chk.queries if re.search(a.only, q.name)]
    if a.list:
        for q in chk.queries:
            print(q.tier, q.name, q.entry, q.unit.key)
        return 0
    return chk.run(a.tier, seed)

if __name__ == '__main__':
    sys.exit(main())
