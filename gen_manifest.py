#!/usr/bin/env python3
"""Regenerates MANIFEST.json from the table below (single source of truth for claims / not-applicable)."""
import json, os, subprocess

HERE = os.path.dirname(os.path.abspath(__file__))
TECH = 'bounded symbolic execution of the real code: clang-14 LLVM IR of the C++ harness+headers -> own IR-to-C lowering (engine/ir2c.py) -> CBMC 6.11 SAT, unwinding assertions on'

CLAIMS = {
    'C11': dict(cat='model_checking', ref='DESIGN.md §4 C11',
                text='SAT decides, for ALL pairs of values of every fixed-width component type at full width (2^16..2^128 pairs per type), all text pairs up to 16 bytes (thorough: 64) '
                     'over the full byte alphabet, pairs at the truncation boundary and two tuple schemas, that the byte order of the real encoder output equals the specified order. '
                     'Bounded for text length / tuple schema only; no sampling.',
                note='trusted: clang front end + own IR-to-C lowering (validated on every run by executing solver-generated vectors through both the generated C and a g++ build of the real code), '
                     'CBMC float/bit-vector semantics; the truncation-boundary query uses the guarded hook that narrows the run-length type to 8 bits (maxlen 252).'),
    'C12': dict(cat='model_checking', ref='DESIGN.md §4 C12',
                text='SAT decides decode(encode(x)) == x bit-for-bit for every value of every fixed-width type (NaNs canonicalised), component widths, decoding across tuple positions, '
                     'and buffer growth/reset with 34 symbolic components crossing the 256-byte internal buffer.',
                note='as C11; growth path runs as real code with the allocation model; longer component sequences are outside the bound.'),
    'C15': dict(cat='model_checking', ref='DESIGN.md §4 C15',
                text='SAT decides byte-equality iff equality-after-normalisation and prefix-freedom for all pairs within the bounds of C11, output size limits, and that encode_text never '
                     'reads beyond maxlen (input object of exactly maxlen bytes, CBMC pointer/bounds checks as the guard page).',
                note='as C11.'),
}

CLAIMS['C07'] = dict(cat='model_checking', ref='DESIGN.md §4 C07',
    text='SAT decides, over ALL sequentially consistent interleavings (every atomic access a scheduling point) of 2 and 3 threads each performing one lock operation '
         '(validated read section via check()/try_read_unlock(), upgrade + two-word protected write + unlock, unlock_and_obsolete, rehydrate), that writers are exclusive, '
         'validated sections saw a consistent snapshot and overlapped no write-locked period, upgrades succeed only without an intervening writer, and obsoletion is final; '
         'plus lock-word arithmetic for all 2^64 words. Release and assertion-enabled IR.',
    note='CBMC partial-order concurrency encoding (sound here: all shared state is scalar); SC only - weak-memory behaviours are outside the claim; spinning executions are cut as equivalent to later arrival; '
         'one operation per thread; counterexamples are CBMC traces (thread schedules cannot be replayed natively).')

CLAIMS['C01'] = dict(cat='model_checking', ref='DESIGN.md §4 C01',
    text='SAT decides the map-oracle assertions (results of insert/remove/get/empty, value bytes, untouched other entries) for ALL 2^64 keys of one symbolic operation on each tree of a catalogue '
         'of concrete shapes (every way a key can leave the tree), and for two/three fully symbolic keys from the empty index; I48/I256 trees with children at the boundary key bytes 00/01/7F/80/81/FE/FF with one remove per boundary byte. '
         'a value view taken by get() stays readable and unchanged through one insert / one remove of any other key (pointer checks on). Bounded: prelude + one symbolic operation, not arbitrary histories.',
    note='trusted: translator (validated per run against the g++ build on solver-generated vectors), CBMC memory model, zero-initialised objects, allocation never fails here (C08 covers faults). '
         'Counterexamples are replayed on a native g++ build of the real code before being reported.')

CLAIMS['C02'] = dict(cat='model_checking', ref='DESIGN.md §4 C02',
    text='SAT decides the comparison kernels for all inputs (incl. byte strings living in distinct buffers), complete scans in both directions with a symbolic halting position on '
         'every catalogue shape, seek/scan_from/scan_range with fully symbolic 64-bit bounds against a sorted-list oracle on the root leaf, concrete boundary probes on I48/I256 nodes in arbitrary valid states, and constant operation '
         'sequences on the OLC index (all five scan forms, bounds falling off nodes and diverging inside key prefixes at and below the root, symbolic halting position, visiting-order oracle), and all five scan forms on db/olc_db/mutex_db<key_view> over a four-level tree of byte-string keys with a list of 17 bounds held in different kinds of memory.',
    note='iterator stack replaced by the guarded fixed-capacity hook; write-only key_buffer stubbed; symbolic 64-bit bounds on trees with inner nodes exceed 40 GB of SAT memory on this tree (tier "deep", manual only - they found defect 2 earlier); '
         'byte-string keys at tree level with concrete bounds only (kvscan-*). Two defects found this way were repaired (known_findings.txt).')

CLAIMS['C16'] = dict(cat='model_checking', ref='DESIGN.md §4 C16',
    text='The node-level and tree-level queries of C01/C02 are regenerated from the SSE4.1, assertion-enabled, SSE4.1+assertions and statistics-free builds of the real headers; SAT decides for all inputs '
         'within the bounds that each configuration satisfies the same oracle (hence identical results) and that no library assertion is reachable on valid use.  Assertion-enabled OLC index: 15 operation sequences '
         '(scans in both directions with a symbolic halting position, point operations over one to three inner levels) followed by the removal of every key, so that every node is freed through the debug callback and the '
         'read-section accounting is checked by the library itself.',
    note='equality of configurations is derived through the common oracle, not by a product program; spin-wait variants are indistinguishable single-threaded; the OLC sequences are a list of constants, not all histories.')

CLAIMS['C13'] = dict(cat='model_checking', ref='DESIGN.md §4 C13',
    text='SAT decides the lock discipline of every public mutex_db method (get/insert/remove for all 2^64 keys; scan, scan_from, scan_range over a boundary catalogue of bounds with a symbolic halting position; clear, empty, statistics getters; and all 16 of them while ANOTHER thread holds the mutex - lock() must wait, nothing may enter the index) on a small tree: the inner index is only entered with the index mutex held (assertions injected at the '
         'entry of the real inner functions), every method returns with it released, get() returns a lock-owning handle exactly on a hit and the handle releases it.',
    note='std::mutex = ghost owner flag (trusted semantics). Linearizability under free-running threads follows from this discipline by argument only; thread schedules and the "thousands of runs" of the '
         'quantifier are not reproduced (that part is sampling by nature).')

CLAIMS['C08'] = dict(cat='fault_enumeration', ref='DESIGN.md §4 C08',
    text='For every generated structural case (tree x key x insert/remove) the allocation-failure position is a symbolic variable (0..3) and CBMC decides each resulting path: exception type, '
         'entries/values/statistics/live allocations unchanged after the failure, normal result of the retry; over-long values raise length_error with no effect.',
    note='keys are generated concrete structural cases (a fully symbolic key together with a symbolic fault position exhausts memory, measured); one fault per operation; db instantiation with the fault position symbolic; '
         'olc_db (one registered thread; every case x every position, position as generated constant because the OLC index does not fold with a symbolic one) and five mutex_db cases; '
         'QSBR side: request / request that is the first to notice an epoch change completed by the others / resume / thread start, with the requester epoch view and both pending lists compared before and after '
         '(positions enumerated, quick; symbolic path-wise in the thorough tier). Counterexamples of the db queries replay on the g++ build with interposed allocators.',
    tech='bounded symbolic execution of the real code (clang IR -> C -> CBMC), path-wise (--paths lifo) with the fault index symbolic')
CLAIMS['C10'] = dict(cat='model_checking', ref='DESIGN.md §4 C10',
    text='SAT decides, for all 2^64 keys of one insert/remove on catalogue trees, that leaf count, inner nodes per size class and memory use equal a reference computed from the key set alone, '
         'that growth/shrink counters are monotone and move exactly with structural changes, that live allocations match the reported nodes; clear() zeroes everything; for the OLC index after a concurrent phase (every preemption point of 9 scenarios) all counters and inner node counts equal those of the same calls issued one at a time on the unsynchronised index in an order that fits the results.',
    note='history independence only in the form insert(k);remove(k) and via the reference shape (which depends on the key set only); I48/I256 classes appear only in the node-level lemmas of C01; db instantiation.')

CLAIMS['C17'] = dict(cat='model_checking', ref='DESIGN.md §4 C17',
    text='SAT decides, for every sequence of 2-3 (thorough: 4) wrapper operations with a symbolic choice among the 13 operation kinds, operands and offsets at every step, that all observers of qsbr_ptr '
         'agree with shadow raw pointers after every step; qsbr_ptr_span vs its source span for every sub-span; in the assertion-enabled build the ghost registry equals the multiset of live non-null wrappers after every step; element types uint8_t/uint32_t/uint64_t; one query runs the REAL per-thread registry (std::unordered_multiset) from a duplicate-address prelude.',
    note='registry = ghost multiset behind the real out-of-line register/unregister functions except in qreg-real-1 (there: _Prime_rehash_policy::_M_need_rehash modelled as never-rehash); the link "quiescent/pause/resume assert registry emptiness" is by reading; sequences longer than the bound and self-assignment are outside the claim.')

SEQ_TECH = 'own sequentialisation (preemption points before every atomic access, preemption bound 1) of the IR-lowered real code; preemption index enumerated exhaustively, every schedule executed and checked by CBMC (symbolic executor with pointer/deallocation checks and unwinding assertions; SAT instances trivial)'
SEQ_NOTE = ('the solver does not quantify over schedules here: a symbolic preemption index was measured out of reach (path-wise > 1200 s per scenario, merged: no result in 900 s), so the index is enumerated and CBMC '
            'acts as executor/checker of the real code; scenario list (concrete trees/keys or scripts) x every preemption point of one thread x one complete operation/script of the other thread(s); sequential consistency; '
            'counterexamples are (scenario, preemption index) pairs, re-runnable with run_check.py --only; no native replay of schedules. ')
CLAIMS['C03'] = dict(cat='exploration', ref='DESIGN.md §3.4, §4', tech=SEQ_TECH,
    text='Exhaustive within its bound: for each of ~30 scenarios (one per structural change of the OLC tree x reader / second writer / same-key race) and EVERY atomic access of thread A as the preemption point at which '
         'thread B completes its operation, results and final content equal those of one sequential order of the two calls. A genuine lost-read defect of the pinned tree is found this way and listed as a known finding.',
    note=SEQ_NOTE + 'Not covered: two or more preemptions, three or more threads, weak memory, random exploration beyond the bound.')
CLAIMS['C04'] = dict(cat='exploration', ref='DESIGN.md §3.4, §4', tech=SEQ_TECH,
    text='Same schedules with the real QSBR code and two registrations: CBMC flags any access to a deallocated or out-of-bounds object on every schedule, the value view a preempted get() obtained is re-read after the '
         'competing remove and before the reader quiesces, and after both threads quiesced nothing may be freed twice.  Plus a sequential retire chain through every node size class (I4->I16->I48->I256 and back) with two registrations and '
         'free-site hooks: no operation hands a node straight to the allocator, every unlinked node is freed exactly once after both threads quiesced.',
    note=SEQ_NOTE + 'Scans under interleavings and "eventually freed exactly once" beyond the two-operation scenarios are not covered (QSBR reclamation itself: C05/C06).')
CLAIMS['C14'] = dict(cat='exploration', ref='DESIGN.md §3.4, §4', tech=SEQ_TECH,
    text='After every explored schedule a sweep (get of every key, insert+remove next to every key) must complete within the unwinding bound of the restart loops, i.e. no node or root lock is left held by either operation. '
         'Allocation failures: every structural case of C08 on the olc_db (one registered thread) with each of its allocations failing in turn (position enumerated), followed by the same sweep. Scans: the concurrent-scan scenarios of C09 (reverse scan quick, all thorough) must return within the bound of their descent/restart loops.',
    note=SEQ_NOTE + 'Deadlock-freedom proper (wait cycles of three or more threads) is NOT decided by this check; allocation failures are not combined with preemptions.')
CLAIMS['C05'] = dict(cat='exploration', ref='DESIGN.md §3.4, §4', tech=SEQ_TECH + '; QSBR state word kernels: SAT over all 64-bit words',
    text='(a) SAT: every state-word transition function for ALL 64-bit words satisfying the invariant (release and assertion-enabled IR). (b) Exhaustive within its bound: 16 scripted 3-4 thread programs in which one call '
         'is preempted at EVERY atomic access by a script of complete calls of the other threads; every free performed by QSBR is intercepted and must not happen while a thread registered at request time has yet to quiesce, pause or exit.',
    note=SEQ_NOTE + 'Statistics-free build; exit modelled by pause; programs are a scenario list, not all programs of the quantifier.')
CLAIMS['C06'] = dict(cat='exploration', ref='DESIGN.md §3.4, §4', tech=SEQ_TECH + '; QSBR state word kernels: SAT over all 64-bit words',
    text='Same programs and schedules as C05: every deferred deallocation runs exactly once by the end of the drain, the registered-thread count equals the ghost count at every call boundary, requests are executed within three '
         'all-thread quiescent rounds, and no per-thread or orphaned list is left non-empty.',
    note=SEQ_NOTE + 'Statistics-free build; scenario list.')

CLAIMS['C09'] = dict(cat='exploration', ref='DESIGN.md §3.4, §4', tech=SEQ_TECH,
    text='Exhaustive within its bound: 7 scan scenarios (scan, scan_from, scan_range, both directions, one- and two-level trees, removals/inserts that restructure nodes on the scanner\'s stack) x EVERY atomic access of the '
         'scan as the point at which another thread completes one insert or remove: strictly monotone order, interval, correct values, no key absent throughout, every entry present throughout delivered exactly once.',
    note=SEQ_NOTE + 'One writer operation per scan, one scanner, scans of 4-5 entries; iterator on the guarded fixed-capacity stack hook.')

NOT_APPLICABLE = {
}

PENDING = 'check not built yet in this round (work in progress; see DESIGN.md §4)'
ALL = ['C%02d' % i for i in range(1, 18)]


def main():
    checks = []
    for pid in ALL:
        if pid not in CLAIMS:
            continue
        c = CLAIMS[pid]
        checks.append({
            'property_id': pid,
            'quick_cmd': 'python3 run_check.py %s --tier quick' % pid,
            'thorough_cmd': 'python3 run_check.py %s --tier thorough' % pid,
            'evidence_file': 'evidence/%s.json' % pid,
            'replay_cmd_template': 'python3 replay.py {path}',
            'engine': 'ir2c+cbmc',
            'level_claimed': {'category': c['cat'], 'text': c['text'], 'design_ref': c['ref']},
            'level_note': c['note'],
            'technique': c.get('tech', TECH),
        })
    na = []
    for pid in ALL:
        if pid in CLAIMS:
            continue
        na.append({'property_id': pid, 'reason': NOT_APPLICABLE.get(pid, PENDING)})
    hooks = subprocess.run(['git', '-C', '/repo', 'log', '--format=%H %s', 'e52db69..HEAD'], capture_output=True, text=True).stdout.strip().split('\n')
    hook_commits = [l.split()[0] for l in hooks if l and 'verif hook' in l]
    m = {
        'version': 1,
        'setup_cmd': './setup.sh',
        'hooks': {
            'guard': 'UNODB_DETAIL_VERIF_TEXT_SIZE_TYPE (and any further UNODB_DETAIL_VERIF_* define); all default to off',
            'enable': 'harness units pass -DUNODB_DETAIL_VERIF_...=... to clang++-14 / g++ when they compile /repo headers (engine/checks.py); the repository build never defines them',
            'baseline_off_cmd': './baseline.sh',
            'source_commits': hook_commits,
            'add_only': True,
        },
        'engines': [{'name': 'ir2c+cbmc', 'path': 'engine/', 'serves_properties': sorted(CLAIMS),
                     'kind_free_text': 'clang-14 IR -> C lowering written for this task + CBMC 6.11 bounded model checker (SAT); native g++ replay of counterexamples'}],
        'checks': checks,
        'not_applicable': na,
        'notes': 'Every check regenerates IR from /repo working tree. Exit 0 = all queries hold; 1 = VIOLATION; 2 = inconclusive/machinery error (never reported as success).',
    }
    json.dump(m, open(os.path.join(HERE, 'MANIFEST.json'), 'w'), indent=1)


if __name__ == '__main__':
    main()
