/* thread mixes for C07 (CBMC native threads) + ghost state */
static int g_writers_active, g_acquisitions, g_obsolete, g_done;
void gh_done(void) { __CPROVER_atomic_begin(); g_done++; __CPROVER_atomic_end(); }
void gh_snap(ptr acq, ptr wa, ptr obs) { __CPROVER_atomic_begin(); *(uint32_t*)acq = g_acquisitions; *(uint32_t*)wa = g_writers_active; *(uint32_t*)obs = g_obsolete; __CPROVER_atomic_end(); }
void gh_acquired(uint32_t acq0, uint32_t obs_before) {
  __CPROVER_atomic_begin();
  __CPROVER_assert(g_acquisitions == (int)acq0, "C07: upgrade succeeds only if no writer acquired the lock since the section was opened");
  __CPROVER_assert(!obs_before, "C07: no upgrade succeeds once the lock is obsolete");
  g_acquisitions++; g_writers_active++;
  __CPROVER_assert(g_writers_active == 1, "C07: at most one write guard is active");
  __CPROVER_atomic_end();
}
void gh_released(void) { __CPROVER_atomic_begin(); g_writers_active--; __CPROVER_atomic_end(); }
void gh_set_obsolete(void) { __CPROVER_atomic_begin(); g_obsolete = 1; __CPROVER_atomic_end(); }
void t_reader_then_writer(void); void t_writer_then_reader(void); void t_writer_twice(void); void t_writer_then_obsolete(void);
void t_reader_check(void); void t_reader_unlock(void); void t_writer(void); void t_writer_unlock(void); void t_writer_obsolete(void); void t_rehydrate(void);
#ifdef __CPROVER__
#define SPAWN1(f) __CPROVER_ASYNC_1: f()
#define SPAWN2(f) __CPROVER_ASYNC_2: f()
#define SPAWN3(f) __CPROVER_ASYNC_3: f()
#define ALLDONE(n) do { __CPROVER_assume(g_done == (n)); __CPROVER_assert(0, "WITNESS end of harness reachable"); } while (0)
#else
#define SPAWN1(f) f()
#define SPAWN2(f) f()
#define SPAWN3(f) f()
#define ALLDONE(n) verif_witness()
#endif
#define MIX2(name, f1, f2) void name(void) { SPAWN1(f1); SPAWN2(f2); ALLDONE(2); }
#define MIX3(name, f1, f2, f3) void name(void) { SPAWN1(f1); SPAWN2(f2); SPAWN3(f3); ALLDONE(3); }
MIX2(mix_rc_w, t_reader_check, t_writer)
MIX2(mix_ru_w, t_reader_unlock, t_writer_unlock)
MIX2(mix_w_w, t_writer, t_writer_unlock)
MIX2(mix_rc_wo, t_reader_check, t_writer_obsolete)
MIX2(mix_ru_wo, t_reader_unlock, t_writer_obsolete)
MIX2(mix_w_wo, t_writer, t_writer_obsolete)
MIX2(mix_rh_w, t_rehydrate, t_writer)
MIX2(mix_rh_wo, t_rehydrate, t_writer_obsolete)
MIX3(mix_rc_w_w, t_reader_check, t_writer, t_writer_unlock)
MIX3(mix_ru_w_wo, t_reader_unlock, t_writer, t_writer_obsolete)
MIX3(mix_w_w_wo, t_writer, t_writer_unlock, t_writer_obsolete)
MIX3(mix_rc_ru_w, t_reader_check, t_reader_unlock, t_writer)
MIX3(mix_rh_w_w, t_rehydrate, t_writer, t_writer_unlock)
MIX3(mix_rh_w_wo, t_rehydrate, t_writer, t_writer_obsolete)
MIX2(mix2_rw_ww, t_reader_then_writer, t_writer_twice)
MIX2(mix2_wr_wr, t_writer_then_reader, t_writer_then_reader)
MIX2(mix2_rw_wo, t_reader_then_writer, t_writer_then_obsolete)
MIX2(mix2_ww_wo, t_writer_twice, t_writer_then_obsolete)
