// C07: optimistic_lock under all SC interleavings of 2-3 threads (CBMC native threads:
// all shared state is scalar).  Ghost variables (g_*) are harness-side observers.
#include "verif.hpp"
#include "optimistic_lock.hpp"
using namespace unodb;

static optimistic_lock lk;
static in_critical_section<std::uint64_t> a{0}, b{0};   // writers keep a == b

// ghost state lives in lock_glue.c; each gh_* call is one atomic step
extern "C" {
void gh_done(void) noexcept;
void gh_snap(int* acq, int* wa, int* obs) noexcept;      // atomic snapshot of (acquisitions, writers_active, obsolete)
void gh_acquired(int acq0, int obs_before) noexcept;      // called right after a successful upgrade: asserts + counts
void gh_released(void) noexcept;                           // called right before the unlock
void gh_set_obsolete(void) noexcept;                       // called right after unlock_and_obsolete() returned
}
static void finish(bool announce = true) { if (announce) gh_done(); }

// ---- reader: open, read both words, validate with check() or try_read_unlock()
static void reader(bool use_check, bool announce = true) {
  int d0, d1, o0; gh_snap(&d0, &d1, &o0);
  auto rcs = lk.try_read_lock();
  if (rcs.must_restart()) { finish(announce); return; }
  PROP(!o0, "C07: no read section can be opened once the lock is obsolete");
  int acq0, wa0, d2; gh_snap(&acq0, &wa0, &d2);
  const std::uint64_t x = a.load();
  const std::uint64_t y = b.load();
  int o1, acq1, wa1; gh_snap(&acq1, &wa1, &o1);
  const bool ok = use_check ? rcs.check() : rcs.try_read_unlock();
  if (ok) {
    PROP(x == y, "C07: a validated read section saw a consistent snapshot (a == b)");
    PROP(acq1 == acq0 && wa0 == 0 && wa1 == 0, "C07: a validated read section did not overlap any write-locked period");
    PROP(!o1, "C07: a section still open when the lock became obsolete fails its next check");
  }
  finish(announce);
}
extern "C" void t_reader_check(void) { reader(true); }
extern "C" void t_reader_unlock(void) { reader(false); }

// ---- writer: open, upgrade, two-word write, unlock (or unlock_and_obsolete)
static void writer(int mode, bool announce = true) {   // 0: destructor unlock, 1: unlock(), 2: unlock_and_obsolete()
  int d0, d1, o0; gh_snap(&d0, &d1, &o0);
  auto rcs = lk.try_read_lock();
  if (rcs.must_restart()) { finish(announce); return; }
  PROP(!o0, "C07: no read section can be opened once the lock is obsolete");
  int acq0, d2, o1; gh_snap(&acq0, &d2, &o1);
  {
    optimistic_lock::write_guard g{std::move(rcs)};
    if (!g.must_restart()) {
      gh_acquired(acq0, o1);
      a = a.load() + 1;
      b = b.load() + 1;
      gh_released();
      if (mode == 1) g.unlock();
      else if (mode == 2) { g.unlock_and_obsolete(); gh_set_obsolete(); }
    }
  }
  finish(announce);
}
extern "C" void t_writer(void) { writer(0); }
extern "C" void t_writer_unlock(void) { writer(1); }
extern "C" void t_writer_obsolete(void) { writer(2); }

// ---- rehydrate: remember the version tag, close the section, later re-open with the saved tag
extern "C" void t_rehydrate(void) {
  auto rcs = lk.try_read_lock();
  if (rcs.must_restart()) { finish(); return; }
  int acq0, wa0, d0; gh_snap(&acq0, &wa0, &d0);
  const version_tag_type tag = rcs.get();
  const std::uint64_t x0 = a.load();
  if (!rcs.try_read_unlock()) { finish(); return; }
  auto r2 = lk.rehydrate_read_lock(tag);
  const std::uint64_t x = a.load();
  const std::uint64_t y = b.load();
  int acq1, wa1, o1; gh_snap(&acq1, &wa1, &o1);
  if (r2.check()) {
    PROP(x == y && x == x0, "C07: a rehydrated section that validates saw the same consistent snapshot");
    PROP(acq1 == acq0 && wa0 == 0 && wa1 == 0 && !o1, "C07: a rehydrated section validates only if no writer acquired the lock since the tag was taken");
  }
  finish();
}


// ---- two operations per thread (deeper bound): the second operation starts after the first completed
extern "C" void t_reader_then_writer(void) { reader(true, false); writer(1, false); finish(); }
extern "C" void t_writer_then_reader(void) { writer(0, false); reader(false, false); finish(); }
extern "C" void t_writer_twice(void) { writer(1, false); writer(0, false); finish(); }
extern "C" void t_writer_then_obsolete(void) { writer(1, false); writer(2, false); finish(); }
