// C16: the assertion-enabled OLC index, one thread.  Sequences of legal operations followed by the removal of every key and enough
// quiescent states that every node is handed back: the library's own debug accounting (optimistic_lock::read_lock_count must be 0 when a
// node is freed, checked by olc_node_header::check_on_dealloc through the QSBR debug callback; the assertions in quiescent()/qsbr_ptr)
// must stay silent for usage that respects the documented preconditions - "including scans followed by removals on the OLC index".
// UNODB_DETAIL_ASSERT -> assert -> __assert_fail is an assertion failure in the encoding.
#include "verif.hpp"
#include <algorithm>
#include <array>
#include <atomic>
#include <cstring>
#include <iostream>
#include <memory>
#include <optional>
#include <span>
#include <sstream>
#include <stack>
#include <thread>
#include <mutex>
#include <type_traits>
#include <vector>
#include <bit>
#include <system_error>
#include <functional>
#include <unordered_set>
#include <iomanip>
#include <string>
#include <string_view>
#include <cstdlib>
#include <cerrno>
#include <new>
#include <cassert>
#define private public
#include "olc_art.hpp"
#include "qsbr.cpp"
#ifdef VERIF_NATIVE_REAL
#include "qsbr_ptr.cpp"
#endif
#undef private
// in the encoding the out-of-line qsbr_ptr_base::register_active_ptr/unregister_active_ptr are a ghost registry (qptr_glue.c, as in C17):
// the std::unordered_multiset behind the real ones calls into the compiled part of libstdc++
using namespace unodb;
using db_t = unodb::olc_db<std::uint64_t, unodb::value_view>;
static unodb::value_view vv(const std::uint8_t* b, std::size_t n) { return unodb::value_view{reinterpret_cast<const std::byte*>(b), n}; }
static std::uint8_t valbyte(std::uint64_t k) { return static_cast<std::uint8_t>((k ^ (k >> 8) ^ (k >> 56)) | 0x40); }

enum { GET = 0, INS = 1, REM = 2, SCAN_F = 3, SCAN_R = 4, FROM_F = 5, FROM_R = 6, RANGE = 7, QUIESCE = 8 };
struct opdesc { int op; std::uint64_t key, key2; };
#define MAXK 12
struct model { std::uint64_t k[MAXK]; unsigned n; };
static bool has(const model& m, std::uint64_t k) { for (unsigned i = 0; i < MAXK; i++) if (i < m.n && m.k[i] == k) return true; return false; }
static void add(model& m, std::uint64_t k) { if (m.n < MAXK) m.k[m.n++] = k; }
static void del(model& m, std::uint64_t k) { for (unsigned i = 0; i < MAXK; i++) if (i < m.n && m.k[i] == k) { m.k[i] = m.k[m.n - 1]; m.n--; return; } }

template <unsigned NP, unsigned NO> static void sequence(const std::uint64_t (&pre)[NP], const opdesc (&ops)[NO]) {
  static unodb::detail::set_qsbr_per_thread_in_main_thread reg;
  static db_t d;
  model m{}; m.n = 0;
  for (unsigned i = 0; i < NP; i++) { const std::uint8_t v = valbyte(pre[i]); const bool r = d.insert(pre[i], vv(&v, 1)); PROP(r, "C16/C02: prelude insert succeeds"); add(m, pre[i]); }
  unodb::this_thread().quiescent();
  const std::uint64_t halt = in_range(1, MAXK);          // symbolic: where the scan visitors stop
  for (unsigned i = 0; i < NO; i++) {
    const opdesc& o = ops[i];
    if (o.op == GET) { auto g = d.get(o.key); PROP(g.has_value() == has(m, o.key), "C16/C02: OLC index: get agrees with the map"); }
    else if (o.op == INS) { const std::uint8_t v = valbyte(o.key); const bool r = d.insert(o.key, vv(&v, 1)); PROP(r == !has(m, o.key), "C16/C02: OLC index: insert agrees with the map"); if (r) add(m, o.key); }
    else if (o.op == REM) { const bool r = d.remove(o.key); PROP(r == has(m, o.key), "C16/C02: OLC index: remove agrees with the map"); if (r) del(m, o.key); }
    else if (o.op == QUIESCE) { unodb::this_thread().quiescent(); }
    else {
      unsigned n = 0; std::uint64_t seen[MAXK + 1];
      auto fn = [&n, &seen, halt](const auto& v) {
        auto kv = v.get_key(); std::uint64_t key = 0; for (std::size_t b = 0; b < 8 && b < kv.size(); b++) key = (key << 8) | static_cast<std::uint8_t>(kv[b]);
        if (n < MAXK) seen[n] = key;
        n++; return n >= halt; };
      const bool fwd = o.op == SCAN_F || o.op == FROM_F || (o.op == RANGE && o.key < o.key2);
      unsigned exp = 0; std::uint64_t want[MAXK];
      for (unsigned j = 0; j < MAXK; j++) if (j < m.n) {
        const std::uint64_t k = m.k[j];
        bool in = true;
        if (o.op == FROM_F) in = k >= o.key; else if (o.op == FROM_R) in = k <= o.key;
        else if (o.op == RANGE) in = o.key < o.key2 ? (k >= o.key && k < o.key2) : (o.key > o.key2 ? (k <= o.key && k > o.key2) : false);
        if (!in) continue;
        unsigned pos = exp;                                    // insertion sort into the expected visiting order
        while (pos > 0 && (fwd ? want[pos - 1] > k : want[pos - 1] < k)) { want[pos] = want[pos - 1]; pos--; }
        want[pos] = k; exp++;
      }
      if (exp > halt) exp = static_cast<unsigned>(halt);
      if (o.op == SCAN_F) d.scan(fn, true); else if (o.op == SCAN_R) d.scan(fn, false);
      else if (o.op == FROM_F) d.scan_from(o.key, fn, true); else if (o.op == FROM_R) d.scan_from(o.key, fn, false);
      else d.scan_range(o.key, o.key2, fn);
      PROP(n == exp, "C16/C02: OLC index: the scan visits the entries of the interval until halted");
      for (unsigned j = 0; j < MAXK; j++) if (j < exp && j < n) PROP(seen[j] == want[j], "C16/C02: OLC index: the scan visits exactly the entries of the interval in key order");
    }
  }
  // hand everything back: remove every key, then enough quiescent states for both epochs' requests to run (check_on_dealloc on every node)
  for (unsigned i = 0; i < MAXK; i++) if (i < m.n) { const bool r = d.remove(m.k[i]); PROP(r, "C16/C02: OLC index: every remaining key can be removed"); }
  PROP(d.empty(), "C16/C02: OLC index: empty after removing every key");
  unodb::this_thread().quiescent(); unodb::this_thread().quiescent(); unodb::this_thread().quiescent();
  OBSERVE(m.n); OBSERVE(halt);
  WITNESS();
}

// preludes: one I4 / two inner levels / three inner levels (P -> N -> C -> leaves)
static const std::uint64_t T_flat[] = {0x10, 0x20, 0x30};
static const std::uint64_t T_two[] = {0x0010, 0x0020, 0x0110, 0x0120};
static const std::uint64_t T_three[] = {0x000010, 0x000020, 0x000110, 0x010010, 0x010020};
#define DSEQ(name, pre, ...) HARNESS(name) { static const opdesc ops[] = {__VA_ARGS__}; sequence(pre, ops); }
// the sequence the property names: a scan that descends through an inner node, then a removal that frees that node
DSEQ(d_scan_then_remove, T_two, {SCAN_F, 0, 0}, {REM, 0x0110, 0}, {REM, 0x0120, 0})
DSEQ(d_scanrev_then_remove, T_two, {SCAN_R, 0, 0}, {REM, 0x0010, 0}, {REM, 0x0020, 0})
DSEQ(d_from_then_remove, T_two, {FROM_F, 0x0015, 0}, {REM, 0x0010, 0}, {REM, 0x0020, 0})
DSEQ(d_fromrev_then_remove, T_two, {FROM_R, 0x0115, 0}, {REM, 0x0110, 0}, {REM, 0x0120, 0})
DSEQ(d_range_then_remove, T_two, {RANGE, 0x0011, 0x0121}, {REM, 0x0110, 0}, {REM, 0x0120, 0})
DSEQ(d_rangerev_then_remove, T_two, {RANGE, 0x0121, 0x0011}, {REM, 0x0010, 0}, {REM, 0x0020, 0})
DSEQ(d_flat_scan_grow, T_flat, {SCAN_F, 0, 0}, {INS, 0x40, 0}, {INS, 0x50, 0}, {FROM_R, 0x45, 0}, {REM, 0x10, 0})
// point operations through three inner levels, then the nodes on their path are dissolved / replaced
DSEQ(d_deep_remove, T_three, {REM, 0x010010, 0}, {GET, 0x010020, 0}, {REM, 0x000010, 0})
DSEQ(d_deep_get_insert, T_three, {GET, 0x010010, 0}, {INS, 0x010030, 0}, {GET, 0x010030, 0}, {REM, 0x000110, 0})
DSEQ(d_deep_miss, T_three, {REM, 0x010011, 0}, {GET, 0x020000, 0}, {INS, 0x010010, 0}, {REM, 0x0000FF, 0})
DSEQ(d_deep_scan, T_three, {FROM_F, 0x000015, 0}, {REM, 0x000020, 0}, {SCAN_R, 0, 0}, {REM, 0x010020, 0})
// a bound that diverges INSIDE the compressed key prefix of an inner node - at the root and below it - on either side, both directions
static const std::uint64_t T_pfx[] = {0x100, 0x101, 0x102};
static const std::uint64_t T_pfx2[] = {0x0503000000000001ULL, 0x0503000000000002ULL, 0x0600000000000000ULL, 0x0109000000000001ULL, 0x0109000000000002ULL};
DSEQ(d_pfx_root, T_pfx, {FROM_R, 0x5, 0}, {FROM_F, 0x5, 0}, {FROM_R, 0x200, 0}, {FROM_F, 0x200, 0}, {RANGE, 0x5, 0x200}, {RANGE, 0x200, 0x5}, {REM, 0x101, 0})
DSEQ(d_pfx_below_lo, T_pfx2, {FROM_F, 0x0502000000000000ULL, 0}, {FROM_R, 0x0502000000000000ULL, 0}, {FROM_F, 0x0108000000000000ULL, 0}, {FROM_R, 0x0108000000000000ULL, 0}, {REM, 0x0503000000000001ULL, 0})
DSEQ(d_pfx_below_hi, T_pfx2, {FROM_F, 0x0504000000000000ULL, 0}, {FROM_R, 0x0504000000000000ULL, 0}, {FROM_F, 0x010A000000000000ULL, 0}, {FROM_R, 0x010A000000000000ULL, 0}, {REM, 0x0109000000000002ULL, 0})
DSEQ(d_pfx_below_range, T_pfx2, {RANGE, 0x0108000000000000ULL, 0x0504000000000000ULL}, {RANGE, 0x0504000000000000ULL, 0x0108000000000000ULL}, {RANGE, 0x010A000000000000ULL, 0x0502000000000000ULL}, {RANGE, 0x0502000000000000ULL, 0x010A000000000000ULL})
