// C07 (L1): lock word predicates and arithmetic for all 64-bit words
#include "verif.hpp"
#include "optimistic_lock.hpp"
using namespace unodb;

// ---- L1: lock word arithmetic for all 64-bit words
HARNESS(h_lockword) {
  const std::uint64_t w = in_u64();
  optimistic_lock::version_type v{w};
  const bool fr = v.is_free(), wl = v.is_write_locked(), ob = v.is_obsolete();
  PROP(fr == ((w & 3) == 0), "C07: is_free <=> neither write bit nor obsolete bit set");
  PROP(!(fr && wl) && !(fr && ob), "C07: free excludes write-locked and obsolete");
  PROP(ob == (w == 1), "C07: obsolete <=> lock word == 1");
  if (fr) {
    const auto l = v.set_locked_bit();
    PROP(l.is_write_locked() && !l.is_free() && !l.is_obsolete(), "C07: set_locked_bit yields a write-locked, non-obsolete word");
    PROP(l.get() == w + 2, "C07: locking adds 2");
    const std::uint64_t u = l.get() + 2;   // write_unlock arithmetic
    optimistic_lock::version_type nv{u};
    if (w < (1ULL << 63)) {   // version wrap-around (2^62 write cycles) is outside the claim
      PROP(nv.is_free() && u != w, "C07: unlock yields a free word with a different version");
      PROP(!(nv == v) && !(nv == l), "C07: the three words of one write cycle are pairwise distinct");
    }
  }
  OBSERVE(fr); OBSERVE(wl); OBSERVE(ob);
  WITNESS();
}
