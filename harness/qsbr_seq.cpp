// C05 / C06: symbolic call-level programs over 3 simulated QSBR threads (each its own qsbr_per_thread), real qsbr.hpp/qsbr.cpp.
// Every free performed by QSBR is intercepted (entry hook on qsbr::deallocate) and checked against ghost bookkeeping.
#include "verif.hpp"
#include <algorithm>
#include <array>
#include <atomic>
#include <cstring>
#include <iostream>
#include <memory>
#include <optional>
#include <sstream>
#include <thread>
#include <mutex>
#include <vector>
#include <system_error>
#include <functional>
#include <unordered_set>
#include <iomanip>
#include <string>
#include <string_view>
#include <cstdlib>
#include <cerrno>
#include <new>
#include <cassert>
#define private public
#include "qsbr.hpp"
#include "qsbr.cpp"
#undef private
using namespace unodb;
#ifndef NT
#define NT 3
#endif
#ifndef STEPS
#define STEPS 4
#endif
#define MAXOBJ 6
struct ghost_obj { void* p; unsigned waiting; unsigned freed; };     // waiting: bit t set = thread t was registered at retire time and has not quiesced/paused since
static ghost_obj objs[MAXOBJ]; static unsigned nobj;
static unsigned early_free, unknown_free;
extern "C" void verif_on_free(void* p) noexcept {      // called at the entry of qsbr::deallocate(void*)
  bool found = false;
  for (unsigned i = 0; i < MAXOBJ; i++) if (i < nobj && objs[i].p == p) { found = true; if (objs[i].waiting != 0) early_free++; objs[i].freed++; }
  if (!found) unknown_free++;
}
static qsbr_per_thread* T[NT]; static bool active[NT];
static bool busy[NT];   // inside a quiescent()/pause call: holds no references and cannot obtain one to an object retired meanwhile
static void passed(unsigned t) { for (unsigned i = 0; i < MAXOBJ; i++) if (i < nobj) objs[i].waiting &= ~(1u << t); }   // t passes a quiescent state / leaves
static unsigned nactive() { unsigned n = 0; for (unsigned t = 0; t < NT; t++) if (active[t]) n++; return n; }
static void check_now() {
  PROP(early_free == 0, "C05: no deferred deallocation runs while another thread registered at request time has yet to quiesce, pause or exit");
  PROP(unknown_free == 0, "C06: QSBR frees only pointers that were handed to it");
  for (unsigned i = 0; i < MAXOBJ; i++) if (i < nobj) PROP(objs[i].freed <= 1, "C06: a deferred deallocation never runs twice");
  PROP(qsbr_state::get_thread_count(qsbr::instance().get_state()) == nactive(), "C06: the reported registered-thread count equals started-or-resumed minus paused-or-exited threads");
}
static void act(unsigned t, unsigned a) {
  qsbr_per_thread& th = *T[t];
  if (a == 0 && active[t]) { passed(t); busy[t] = true; th.quiescent(); busy[t] = false; }
  else if (a == 1 && active[t] && nobj < MAXOBJ) {
    void* p = detail::allocate_aligned(8);
    unsigned w = 0; for (unsigned u = 0; u < NT; u++) if (u != t && active[u] && !busy[u]) w |= 1u << u;
    objs[nobj].p = p; objs[nobj].waiting = w; objs[nobj].freed = 0; nobj++;
    th.on_next_epoch_deallocate(p);
  }
  else if (a == 2 && active[t]) { passed(t); busy[t] = true; th.qsbr_pause(); busy[t] = false; active[t] = false; }
  else if (a == 3 && !active[t]) { th.qsbr_resume(); active[t] = true; }
}
HARNESS(h_qsbr_prog) {
  for (unsigned t = 0; t < NT; t++) { T[t] = new qsbr_per_thread(); active[t] = true; }
  check_now();
  for (unsigned s = 0; s < STEPS; s++) {
    const unsigned t = static_cast<unsigned>(in_range(0, NT - 1)), a = static_cast<unsigned>(in_range(0, 3));
    act(t, a);
    check_now();
    OBSERVE(t * 4 + a);
  }
  // drain: all but thread 0 leave, thread 0 (resumed if necessary) quiesces twice: nothing may stay pending anywhere
  for (unsigned t = 1; t < NT; t++) if (active[t]) act(t, 2);
  if (!active[0]) act(0, 3);
  act(0, 0); act(0, 0);
  check_now();
  for (unsigned i = 0; i < MAXOBJ; i++) if (i < nobj) PROP(objs[i].freed == 1, "C06: after the drain every deferred deallocation has run exactly once");
  PROP(T[0]->previous_interval_requests_empty() && T[0]->current_interval_requests_empty(), "C06: after the drain the surviving thread has no pending requests");
  PROP(qsbr::instance().previous_interval_orphaned_requests_empty() && qsbr::instance().current_interval_orphaned_requests_empty(), "C06: after the drain no orphaned requests remain");
  WITNESS();
}
