// C05 / C06 (L1): the packed QSBR state word (2-bit epoch | 30-bit thread count | 30-bit threads-in-previous-epoch),
// every transition function for ALL 64-bit words that satisfy the invariant.
#include "verif.hpp"
#include <atomic>
#include <memory>
#include <vector>
#include <iostream>
#include <thread>
#include <system_error>
#include <functional>
#include <optional>
#include <unordered_set>
#include <sstream>
#include <iomanip>
#include <string>
#include <string_view>
#include <mutex>
#include <cstdlib>
#include <cerrno>
#include <new>
#include <algorithm>
#include <cassert>
#define private public
#include "qsbr.hpp"
#include "qsbr.cpp"
#undef private
using namespace unodb;
using W = std::uint64_t;
static constexpr W TMASK = (1ULL << 30) - 1;
static unsigned ep(W w) { return static_cast<unsigned>(w >> 62); }
static W tc(W w) { return (w >> 32) & TMASK; }
static W pv(W w) { return w & TMASK; }
static bool inv(W w) { return pv(w) <= tc(w) && ((w >> 30) & 3) == 0; }   // unused bits 30,31 are zero in every reachable word

HARNESS(h_state_getters) {
  const W w = in_u64(); ASSUME(inv(w));
  PROP(qsbr_state::get_epoch(w).get_val() == ep(w), "C06: get_epoch reads bits 62-63");
  PROP(qsbr_state::get_thread_count(w) == tc(w), "C06: get_thread_count reads the registered-thread field");
  PROP(qsbr_state::get_threads_in_previous_epoch(w) == pv(w), "C05: get_threads_in_previous_epoch reads the not-yet-quiescent field");
  PROP(qsbr_state::single_thread_mode(w) == (tc(w) < 2), "C05: single-thread mode iff at most one thread is registered");
  const qsbr_epoch e{static_cast<qsbr_epoch::epoch_type>(ep(w))};
  PROP(e.advance().get_val() == ((ep(w) + 1) & 3), "C05: epoch advances modulo 4");
  PROP(e.advance(2).get_val() == ((ep(w) + 2) & 3), "C05: epoch advance(2) modulo 4");
  OBSERVE(tc(w)); OBSERVE(pv(w));
  WITNESS();
}
HARNESS(h_state_inc_dec) {
  const W w = in_u64(); ASSUME(inv(w));
  if (tc(w) < TMASK) {
    const W a = qsbr_state::inc_thread_count(w);
    PROP(inv(a) && ep(a) == ep(w) && tc(a) == tc(w) + 1 && pv(a) == pv(w), "C06: inc_thread_count changes exactly the thread count (+1)");
    const W b = qsbr_state::inc_thread_count_and_threads_in_previous_epoch(w);
    PROP(inv(b) && ep(b) == ep(w) && tc(b) == tc(w) + 1 && pv(b) == pv(w) + 1, "C06: inc_thread_count_and_threads_in_previous_epoch adds one to both counts");
    OBSERVE(a); OBSERVE(b);
  }
  if (tc(w) > 0 && pv(w) < tc(w)) {
    const W c = qsbr_state::dec_thread_count(w);
    PROP(inv(c) && ep(c) == ep(w) && tc(c) == tc(w) - 1 && pv(c) == pv(w), "C06: dec_thread_count changes exactly the thread count (-1)");
    OBSERVE(c);
  }
  if (pv(w) > 0) {
    const W d = qsbr_state::dec_thread_count_and_threads_in_previous_epoch(w);
    PROP(inv(d) && ep(d) == ep(w) && tc(d) == tc(w) - 1 && pv(d) == pv(w) - 1, "C06: dec_thread_count_and_threads_in_previous_epoch removes one from both counts");
    std::atomic<W> aw{w};
    const W old = qsbr_state::atomic_fetch_dec_threads_in_previous_epoch(aw);
    const W now = aw.load();
    PROP(old == w && inv(now) && ep(now) == ep(w) && tc(now) == tc(w) && pv(now) == pv(w) - 1, "C05: a quiescent state removes exactly one thread from the previous epoch");
    OBSERVE(d);
  }
  WITNESS();
}
HARNESS(h_state_epoch) {
  const W w = in_u64(); ASSUME(inv(w));
  if (pv(w) == 0) {
    const W a = qsbr_state::inc_epoch_reset_previous(w);
    PROP(inv(a) && ep(a) == ((ep(w) + 1) & 3) && tc(a) == tc(w) && pv(a) == tc(w), "C05: an epoch change advances the epoch and makes every registered thread owe a quiescent state");
    OBSERVE(a);
  }
  if (pv(w) == 1) {
    const W b = qsbr_state::inc_epoch_dec_thread_count_reset_previous(w);
    PROP(inv(b) && ep(b) == ((ep(w) + 1) & 3) && tc(b) == tc(w) - 1 && pv(b) == tc(w) - 1, "C05: the last not-yet-quiescent thread leaving advances the epoch over the remaining threads");
    const W c = qsbr_state::dec_thread_count_threads_in_previous_epoch_maybe_advance(w, true);
    PROP(c == b, "C05: maybe_advance(true) is the epoch-advancing variant");
    OBSERVE(b);
  }
  if (pv(w) > 0) PROP(qsbr_state::dec_thread_count_threads_in_previous_epoch_maybe_advance(w, false) == qsbr_state::dec_thread_count_and_threads_in_previous_epoch(w), "C05: maybe_advance(false) only leaves");
  WITNESS();
}
