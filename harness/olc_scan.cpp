// C09: a scan on the OLC index (thread A, preemption points before every atomic access) overlapped by ONE complete insert or remove of thread B.
// (infrastructure shared with olc_conc.cpp)  C03 / C04 / C14: two simulated threads on one olc_db.  Thread A runs one operation with preemption points before every
// atomic access (inserted by the translator); at the k-th of them (k symbolic) thread B runs one complete operation
// (preemption bound 1, the preempting operation is not itself preempted).  Each simulated thread has its own QSBR registration.
#include "verif.hpp"
#include <algorithm>
#include <array>
#include <atomic>
#include <cstring>
#include <iostream>
#include <memory>
#include <optional>
#include <span>
#include <sstream>
#include <stack>
#include <thread>
#include <mutex>
#include <type_traits>
#include <vector>
#include <bit>
#include <system_error>
#include <functional>
#include <unordered_set>
#include <iomanip>
#include <string>
#include <string_view>
#include <cstdlib>
#include <cerrno>
#include <new>
#include <cassert>
#define private public
#include "olc_art.hpp"
#include "qsbr.cpp"
#include "qsbr_ptr.cpp"
#undef private
using namespace unodb;
using db_t = unodb::olc_db<std::uint64_t, unodb::value_view>;
static unodb::value_view vv(const std::uint8_t* b, std::size_t n) { return unodb::value_view{reinterpret_cast<const std::byte*>(b), n}; }

extern "C" std::uint64_t verif_fixed_k(void) noexcept;
enum { GET = 0, INS = 1, REM = 2 };
struct opdesc { int op; std::uint64_t key; };
struct result { bool ok; std::uint8_t val; };

static db_t* the_db;
static std::unique_ptr<qsbr_per_thread> other_thread;      // QSBR registration of the thread that is currently NOT running
static void switch_thread() { std::swap(qsbr_per_thread::current_thread_instance, other_thread); }

static std::uint8_t valbyte(std::uint64_t k) { return static_cast<std::uint8_t>((k ^ (k >> 8) ^ (k >> 56)) | 0x40); }
static result run_op(db_t& d, opdesc o, const std::uint8_t** held_view, std::size_t* held_len) {
  result r{false, 0};
  if (o.op == GET) {
    auto g = d.get(o.key);
    r.ok = g.has_value();
    if (r.ok) { r.val = g->size() ? static_cast<std::uint8_t>(g->begin()[0]) : 0; if (held_view) { *held_view = reinterpret_cast<const std::uint8_t*>(g->begin().get()); *held_len = g->size(); } }
  } else if (o.op == INS) {
    const std::uint8_t v = valbyte(o.key);
    r.ok = d.insert(o.key, vv(&v, 1));
  } else {
    r.ok = d.remove(o.key);
  }
  return r;
}

static opdesc g_opB; static result g_resB; static bool g_b_done;
extern "C" void verif_interfere(void) {
  switch_thread();
  g_resB = run_op(*the_db, g_opB, nullptr, nullptr);
  g_b_done = true;
  switch_thread();
}
#define MAXV 12
struct visited { unsigned n; std::uint64_t k[MAXV]; std::uint8_t v[MAXV]; std::size_t ks[MAXV], vs[MAXV]; };
// mode: 0 scan fwd, 1 scan rev, 2 scan_from(b) fwd, 3 scan_from(b) rev, 4 scan_range(b, b2)
template <unsigned N> static void scan_scenario(const std::uint64_t (&pre)[N], int mode, std::uint64_t b, std::uint64_t b2, opdesc B, unsigned kmax) {
  static unodb::detail::set_qsbr_per_thread_in_main_thread reg;
  other_thread = std::make_unique<qsbr_per_thread>();
  static db_t d; the_db = &d;
  for (unsigned i = 0; i < N; i++) { const std::uint8_t v = valbyte(pre[i]); bool r = d.insert(pre[i], vv(&v, 1)); PROP(r, "C09: prelude insert succeeds"); }
  unodb::this_thread().quiescent(); switch_thread(); unodb::this_thread().quiescent(); switch_thread();
  g_opB = B; g_b_done = false;
  (void)in_u8(); const std::uint64_t k = verif_fixed_k();
  ASSUME(k <= kmax);
  visited vis{}; vis.n = 0;
  auto fn = [&vis](const auto& v) {
    auto kv = v.get_key(); auto val = v.get_value();
    std::uint64_t key = 0; for (std::size_t i = 0; i < 8 && i < kv.size(); i++) key = (key << 8) | static_cast<std::uint8_t>(kv[i]);
    if (vis.n < MAXV) { vis.k[vis.n] = key; vis.ks[vis.n] = kv.size(); vis.vs[vis.n] = val.size(); vis.v[vis.n] = val.size() ? static_cast<std::uint8_t>(val.begin()[0]) : 0; }
    vis.n++;
    return false;
  };
  verif_yield_arm(k);
  if (mode == 0) d.scan(fn, true); else if (mode == 1) d.scan(fn, false); else if (mode == 2) d.scan_from(b, fn, true); else if (mode == 3) d.scan_from(b, fn, false); else d.scan_range(b, b2, fn);
  verif_yield_disarm();
  PROP(verif_yield_seen() < kmax, "C09: the preemption index range covers every atomic access of the scan (bound check)");
  const bool during = g_b_done;                     // B ran during the scan; otherwise it did not overlap (run it afterwards for symmetry)
  if (!g_b_done) { switch_thread(); g_resB = run_op(d, B, nullptr, nullptr); g_b_done = true; switch_thread(); }
  const bool fwd = (mode == 0 || mode == 2 || (mode == 4 && b < b2));
  PROP(vis.n <= MAXV, "C09: visitor call bound");
  // order and interval, values
  for (unsigned i = 0; i < MAXV; i++) if (i < vis.n) {
    PROP(vis.ks[i] == 8 && vis.vs[i] == 1 && vis.v[i] == valbyte(vis.k[i]), "C09: every delivered key comes with a value that key held (all values of a key are equal here)");
    if (i > 0) PROP(fwd ? vis.k[i - 1] < vis.k[i] : vis.k[i - 1] > vis.k[i], "C09: keys are delivered in strictly monotone order");
    bool in = true;
    if (mode == 2) in = vis.k[i] >= b; if (mode == 3) in = vis.k[i] <= b;
    if (mode == 4) in = b < b2 ? (vis.k[i] >= b && vis.k[i] < b2) : (vis.k[i] <= b && vis.k[i] > b2);
    PROP(in, "C09: only keys of the requested interval are delivered");
    // a key absent for the whole duration is never delivered: it must be a prelude key or the key B inserts
    bool known = false; for (unsigned j = 0; j < N; j++) if (pre[j] == vis.k[i]) known = true;
    if (B.op == INS && B.key == vis.k[i] && during) known = true;
    PROP(known, "C09: a key that is absent for the whole duration of the scan is never delivered");
  }
  // completeness: every prelude key in the interval that B does not remove during the scan is delivered exactly once
  for (unsigned j = 0; j < N; j++) {
    bool in = true;
    if (mode == 2) in = pre[j] >= b; if (mode == 3) in = pre[j] <= b;
    if (mode == 4) in = b < b2 ? (pre[j] >= b && pre[j] < b2) : (b > b2 ? (pre[j] <= b && pre[j] > b2) : false);
    unsigned cnt = 0; for (unsigned i = 0; i < MAXV; i++) if (i < vis.n && vis.k[i] == pre[j]) cnt++;
    const bool stable = !(during && B.op == REM && B.key == pre[j]);
    if (in && stable) PROP(cnt == 1, "C09: every entry present for the whole duration of the scan and inside the interval is delivered exactly once");
    PROP(cnt <= 1, "C09: no key is delivered twice");
  }
  unodb::this_thread().quiescent(); switch_thread(); unodb::this_thread().quiescent(); unodb::this_thread().quiescent(); switch_thread(); unodb::this_thread().quiescent(); unodb::this_thread().quiescent();
  OBSERVE(vis.n); OBSERVE(verif_yield_seen());
  WITNESS();
}
static const std::uint64_t S_flat[] = {0x10, 0x20, 0x30, 0x40};                                   // one I4
static const std::uint64_t S_two[] = {0x0010, 0x0020, 0x0110, 0x0120, 0x0210};                     // root I4 over {I4, I4, leaf}
static const std::uint64_t S_three[] = {0x10, 0x20, 0x30};     // one I4 whose lock word, after ONE more write, equals the version the root pointer lock had at seek time
#ifndef KMAX
#define KMAX 400
#endif
#define SSCEN(name, pre, mode, b, b2, opb, kb) HARNESS(name) { scan_scenario(pre, mode, b, b2, opdesc{opb, kb}, KMAX); }
SSCEN(sc_fwd_rem_mid, S_flat, 0, 0, 0, REM, 0x20)          // forward scan while an entry ahead / behind is removed
SSCEN(sc_fwd_ins_grow, S_flat, 0, 0, 0, INS, 0x25)         // forward scan while the node grows I4 -> I16
SSCEN(sc_rev_rem_mid, S_flat, 1, 0, 0, REM, 0x30)
SSCEN(sc_from_fwd_rem, S_two, 2, 0x0015, 0, REM, 0x0110)   // scan_from inside a two-level tree while an inner node collapses
SSCEN(sc_from_rev_ins, S_two, 3, 0x0115, 0, INS, 0x0015)
SSCEN(sc_range_rem_leaf, S_two, 4, 0x0011, 0x0211, REM, 0x0210)   // the last leaf under the root goes away
// scan_from whose bound is not stored and whose byte is unmapped in the node the seek stops in, while a key BEHIND the scanner's position
// in that node is inserted / removed (children shift under a stale child index).  The 3-entry prelude makes the node's version after that one
// write coincide with the version its parent had at seek time: a stack entry that carries the wrong lock's version passes its check then.
SSCEN(sc_from_flat_ins_low, S_three, 2, 0x18, 0, INS, 0x05)
SSCEN(sc_from_flat_rem_low, S_three, 2, 0x18, 0, REM, 0x10)
SSCEN(sc_from_rev_flat_ins_high, S_three, 3, 0x28, 0, INS, 0x35)
SSCEN(sc_fwd_two_rem_inner, S_two, 0, 0, 0, REM, 0x0020)   // the first inner node collapses onto its remaining leaf while it is on the scanner's stack
