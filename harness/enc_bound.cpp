// C11 / C15: text encoding at the truncation boundary.  Built with the guarded hook
// -DUNODB_DETAIL_VERIF_TEXT_SIZE_TYPE=std::uint8_t (maxlen = 252) so that the boundary is within unwinding reach;
// the production instantiation (uint16_t, maxlen = 65532) runs the same code with a different constant.
#include "verif.hpp"
#include "art_common.hpp"
#include "art_internal.hpp"
#include <cstring>
#include <string_view>
using namespace unodb;
static constexpr std::size_t TERM = 1 + sizeof(key_encoder::size_type);
static int kcmp(key_view a, key_view b) { return sgn(detail::compare(a, b)); }
static bool is_prefix(key_view a, key_view b) {
  if (a.size() > b.size()) return false;
  for (std::size_t i = 0; i < a.size(); i++) if (a[i] != b[i]) return false;
  return true;
}
static void observe_key(key_view k) {
  OBSERVE(k.size());
  for (std::size_t i = 0; i < k.size() && i < 24; i++) OBSERVE(static_cast<std::uint8_t>(k[i]));
}
static std::size_t norm_len(const std::uint8_t* t, std::size_t n) {
  if (n > key_encoder::maxlen) n = key_encoder::maxlen;
  while (n > 0 && t[n - 1] == 0) n--;
  return n;
}

// truncation boundary: body of BODY non-zero bytes is fixed (0x41), the last TAIL bytes symbolic,
// total length maxlen-2 .. maxlen+2.  The object holding the text is exactly min(n, maxlen) bytes long,
// so any read beyond maxlen is an out-of-bounds access for CBMC.
#ifndef TAIL
#define TAIL 4
#endif
static std::uint8_t tb1[key_encoder::maxlen + 4], tb2[key_encoder::maxlen + 4];
HARNESS(h_text_boundary) {
  constexpr std::size_t M = key_encoder::maxlen;
  std::size_t n1 = in_range(M - 2, M + 1000), n2 = in_range(M - 2, M + 1000);   // includes lengths that no longer fit the run-length type
  for (std::size_t i = 0; i < M - TAIL; i++) { tb1[i] = 0x41; tb2[i] = 0x41; }
  for (std::size_t i = M - TAIL; i < M + 4; i++) { tb1[i] = in_u8(); tb2[i] = in_u8(); }
  std::size_t m1 = norm_len(tb1, n1), m2 = norm_len(tb2, n2);
  for (std::size_t i = M - TAIL; i < M; i++) {
    if (i < m1) ASSUME(tb1[i] != 0);
    if (i < m2) ASSUME(tb2[i] != 0);
  }
  key_encoder e1, e2;
  e1.encode_text(std::span<const std::byte>(reinterpret_cast<const std::byte*>(tb1), n1));
  e2.encode_text(std::string_view(reinterpret_cast<const char*>(tb2), n2));      // the second text goes through the string_view overload: both must agree
  key_view k1 = e1.get_key_view(), k2 = e2.get_key_view();
  PROP(k1.size() == m1 + TERM && k2.size() == m2 + TERM, "C15: text@maxlen: emits at most maxlen bytes plus the terminator");
  PROP(k1.size() <= M + TERM, "C15: text@maxlen: output bounded by maxlen+terminator");
  int spec = 0;
  for (std::size_t i = M - TAIL; i < M; i++) {
    if (i >= m1 || i >= m2) break;
    if (tb1[i] != tb2[i]) { spec = tb1[i] < tb2[i] ? -1 : 1; break; }
  }
  if (spec == 0) spec = m1 == m2 ? 0 : (m1 < m2 ? -1 : 1);
  // compare only the tails: the bodies are identical constants
  std::size_t lo = M - TAIL;
  key_view s1 = k1.subspan(lo), s2 = k2.subspan(lo);
  int c = kcmp(s1, s2);
  PROP(c == spec, "C11: text@maxlen: order after truncation to maxlen and pad stripping");
  bool eq = s1.size() == s2.size() && is_prefix(s1, s2);
  PROP(eq == (spec == 0), "C15: text@maxlen: byte-equal iff equal after truncation/normalisation");
  PROP(eq || (!is_prefix(s1, s2) && !is_prefix(s2, s1)), "C15: text@maxlen: prefix-free");
  // run length field: pad byte then big-endian (maxlen - m)
  PROP(static_cast<std::uint8_t>(k1[m1]) == 0, "C11/C15: text@maxlen: pad byte follows text");
  std::size_t rl = 0;
  for (std::size_t i = 0; i < sizeof(key_encoder::size_type); i++) rl = (rl << 8) | static_cast<std::uint8_t>(k1[m1 + 1 + i]);
  PROP(rl == M - m1, "C11/C15: text@maxlen: run length = maxlen - normalised length");
  observe_key(s1); observe_key(s2); OBSERVE(c);
  WITNESS();
}

// the encoder must not read more than maxlen bytes of input: input object has exactly maxlen bytes
// although the span claims more.  (CBMC bounds check acts as the guard page.)
static std::uint8_t exact[key_encoder::maxlen];
HARNESS(h_text_readlimit) {
  constexpr std::size_t M = key_encoder::maxlen;
  std::size_t n = in_range(M, M + 1000);
  for (std::size_t i = 0; i < M - 2; i++) exact[i] = 0x42;
  exact[M - 2] = in_u8(); exact[M - 1] = in_u8();
  key_encoder e;
  e.encode_text(std::span<const std::byte>(reinterpret_cast<const std::byte*>(exact), n));
  std::size_t m = norm_len(exact, M);
  PROP(e.size_bytes() == m + TERM, "C15: text: input longer than maxlen is cut to maxlen");
  key_encoder es;
  es.encode_text(std::string_view(reinterpret_cast<const char*>(exact), n));
  PROP(es.size_bytes() == m + TERM, "C15: text: input longer than maxlen is cut to maxlen (string_view overload)");
  OBSERVE(e.size_bytes());
  WITNESS();
}


