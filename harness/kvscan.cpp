// C02 (L3, byte-string keys): scan / scan_from / scan_range on db<key_view> (DBKIND 0), mutex_db<key_view> (1), olc_db<key_view> (2).
// Concrete tree of nested inner nodes over 4-byte keys; every bound of a list that covers stored keys, their neighbours, bounds that fall off
// inner nodes at every depth, the smallest and the largest key; both directions; the visitor's halting position is SYMBOLIC.  The two bounds of a
// call live in different kinds of memory (static / heap, swapped every other call): results must not depend on where the caller's buffers are.
#include "verif.hpp"
#ifndef DBKIND
#define DBKIND 0
#endif
#if DBKIND == 0
#include "art.hpp"
#elif DBKIND == 1
#include "mutex_art.hpp"
#else
#include "olc_art.hpp"
#include "qsbr.cpp"
#include "qsbr_ptr.cpp"
#endif
#include <cstdlib>
using namespace unodb;
#if DBKIND == 0
using db_t = unodb::db<unodb::key_view, unodb::value_view>;
#elif DBKIND == 1
using db_t = unodb::mutex_db<unodb::key_view, unodb::value_view>;
#else
using db_t = unodb::olc_db<unodb::key_view, unodb::value_view>;
#endif
static void olc_thread_init() {
#if DBKIND == 2
  static bool done = false;
  if (!done) { done = true; static unodb::detail::set_qsbr_per_thread_in_main_thread reg; }
#endif
}
static unodb::value_view vv(const std::uint8_t* b, std::size_t n) { return unodb::value_view{reinterpret_cast<const std::byte*>(b), n}; }
static void put(std::uint8_t* b, std::uint32_t k) { b[0] = static_cast<std::uint8_t>(k >> 24); b[1] = static_cast<std::uint8_t>(k >> 16); b[2] = static_cast<std::uint8_t>(k >> 8); b[3] = static_cast<std::uint8_t>(k); }
static unodb::key_view kvw(const std::uint8_t* b) { return unodb::key_view{reinterpret_cast<const std::byte*>(b), 4}; }

// ascending in byte order = ascending as big-endian numbers; value byte of KEYS[i] is i+1
// shape: root {00 -> {00 -> {00 -> {01, 02}, 01 -> leaf}, 01 -> leaf}, 01 -> leaf, FF -> leaf}
static const std::uint32_t KEYS[] = {0x00000001, 0x00000002, 0x00000100, 0x00010000, 0x01000000, 0xFF000000};
#define NK 6
static const std::uint32_t BOUNDS[] = {0x00000000, 0x00000001, 0x00000002, 0x00000003, 0x00000050, 0x000000FF, 0x00000100, 0x00000101, 0x00005000, 0x00010000,
                                       0x00020000, 0x00FFFFFF, 0x01000000, 0x01000001, 0x80000000, 0xFF000000, 0xFFFFFFFF};
#define NB 17

#define MAXREC 8
struct rec { unsigned n; unsigned halt_at; unsigned calls_after_halt; bool halted; std::uint32_t keys[MAXREC]; std::uint8_t vals[MAXREC]; std::size_t ksz[MAXREC]; std::size_t vsz[MAXREC]; };
template <class V> static bool visit(rec& r, const V& v) {
  if (r.halted) r.calls_after_halt++;
  auto kv = v.get_key();
  auto val = v.get_value();
  std::uint32_t k = 0;
  for (std::size_t i = 0; i < 4 && i < kv.size(); i++) k = (k << 8) | static_cast<std::uint8_t>(kv[i]);
  if (r.n < MAXREC) { r.keys[r.n] = k; r.ksz[r.n] = kv.size(); r.vsz[r.n] = val.size(); r.vals[r.n] = val.size() > 0 ? static_cast<std::uint8_t>(val.begin()[0]) : 0; }
  r.n++;
  if (r.n >= r.halt_at) { r.halted = true; return true; }
  return false;
}
// mode 0: all fwd, 1: all rev, 2: from a fwd (>= a), 3: from a rev (<= a), 4: range [a,b) fwd if a<b, (b,a] rev if a>b, nothing if equal
static void check(const rec& r, int mode, std::uint32_t a, std::uint32_t b) {
  const bool fwd = (mode == 0 || mode == 2 || (mode == 4 && a < b));
  unsigned exp = 0;
  for (unsigned s = 0; s < NK; s++) {
    const unsigned i = fwd ? s : NK - 1 - s;
    const std::uint32_t k = KEYS[i];
    bool in = true;
    if (mode == 2) in = k >= a;
    if (mode == 3) in = k <= a;
    if (mode == 4) in = a < b ? (k >= a && k < b) : (a > b ? (k <= a && k > b) : false);
    if (!in) continue;
    if (exp < r.halt_at) {
      PROP(exp < r.n, "C02: every entry of the interval is visited (up to the halt), byte-string keys");
      if (exp < r.n && exp < MAXREC) {
        PROP(r.keys[exp] == k && r.ksz[exp] == 4, "C02: entries are visited in key order and the visitor sees the entry's key bytes (byte-string keys)");
        PROP(r.vals[exp] == static_cast<std::uint8_t>(i + 1) && r.vsz[exp] == 1, "C02: the visitor sees the entry's value bytes (byte-string keys)");
      }
    }
    exp++;
  }
  const unsigned want = exp < r.halt_at ? exp : r.halt_at;
  PROP(r.n == want, "C02: the visitor is called exactly once per entry of the interval and never after it returned true (byte-string keys)");
  PROP(r.calls_after_halt == 0, "C02: the scan ends as soon as the visitor returns true");
}
static void build(db_t& d) {
  olc_thread_init();
  for (unsigned i = 0; i < NK; i++) {
    std::uint8_t kb[4]; put(kb, KEYS[i]);
    std::uint8_t v = static_cast<std::uint8_t>(i + 1);
    bool r = d.insert(kvw(kb), vv(&v, 1));
    PROP(r, "C02: prelude insert of a fresh key succeeds");
  }
}
static void one(db_t& d, int mode, std::uint32_t a, std::uint32_t b, unsigned halt_at, bool swap_mem) {
  // one static and one heap buffer for the whole harness (an object per call exceeds CBMC's object budget), swapped every other call
  static std::uint8_t static_buf[4];
  static std::uint8_t* heap_buf = nullptr;
  if (heap_buf == nullptr) { heap_buf = static_cast<std::uint8_t*>(std::malloc(4)); ASSUME(heap_buf != nullptr); }
  std::uint8_t* pa = swap_mem ? heap_buf : static_buf;
  std::uint8_t* pb = swap_mem ? static_buf : heap_buf;
  put(pa, a); put(pb, b);
  static rec r; r = rec{}; r.halt_at = halt_at;
  auto fn = [](const auto& v) { return visit(r, v); };
  if (mode == 0) d.scan(fn, true);
  else if (mode == 1) d.scan(fn, false);
  else if (mode == 2) d.scan_from(kvw(pa), fn, true);
  else if (mode == 3) d.scan_from(kvw(pa), fn, false);
  else d.scan_range(kvw(pa), kvw(pb), fn);
  check(r, mode, a, b);
}
#if DBKIND == 2
static void qstate() { unodb::this_thread().quiescent(); }
#else
static void qstate() {}
#endif
HARNESS(kvs_full) {
  static db_t d; build(d);
  const unsigned halt_at = static_cast<unsigned>(in_range(1, NK + 1));
  one(d, 0, 0, 0, halt_at, false); one(d, 1, 0, 0, halt_at, true);
  qstate(); WITNESS();
}
template <unsigned LO, unsigned HI> static void from_all() {
  static db_t d; build(d);
  const unsigned halt_at = static_cast<unsigned>(in_range(1, NK + 1));
  for (unsigned i = LO; i < HI && i < NB; i++) { one(d, 2, BOUNDS[i], 0, halt_at, (i & 1) != 0); one(d, 3, BOUNDS[i], 0, halt_at, (i & 1) == 0); }
  qstate(); WITNESS();
}
HARNESS(kvs_from_a) { from_all<0, 6>(); }
HARNESS(kvs_from_b) { from_all<6, 12>(); }
HARNESS(kvs_from_c) { from_all<12, 17>(); }
// scan_range over all ordered pairs (a, b) with a from one third of the bound list
template <unsigned LO, unsigned HI> static void range_all() {
  static db_t d; build(d);
  const unsigned halt_at = static_cast<unsigned>(in_range(1, NK + 1));
  for (unsigned i = LO; i < HI && i < NB; i++) for (unsigned j = 0; j < NB; j++) one(d, 4, BOUNDS[i], BOUNDS[j], halt_at, ((i + j) & 1) != 0);
  qstate(); WITNESS();
}
HARNESS(kvs_range_a) { range_all<0, 3>(); }
HARNESS(kvs_range_b) { range_all<3, 6>(); }
HARNESS(kvs_range_c) { range_all<6, 9>(); }
HARNESS(kvs_range_d) { range_all<9, 12>(); }
HARNESS(kvs_range_e) { range_all<12, 15>(); }
HARNESS(kvs_range_f) { range_all<15, 17>(); }
