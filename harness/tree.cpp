// C01 / C10 / C13 / C16: point operations of the index classes against a map oracle.
// DBKIND: 0 = unodb::db, 1 = unodb::mutex_db, 2 = unodb::olc_db (single registered thread)
#include "verif.hpp"
#ifndef DBKIND
#define DBKIND 0
#endif
#if DBKIND == 0
#include "art.hpp"
#elif DBKIND == 1
#include "mutex_art.hpp"
#else
#include "olc_art.hpp"
#include "qsbr.cpp"
#include "qsbr_ptr.cpp"
#endif
#include <cstring>
using namespace unodb;

#if DBKIND == 0
using db_t = unodb::db<std::uint64_t, unodb::value_view>;
#elif DBKIND == 1
using db_t = unodb::mutex_db<std::uint64_t, unodb::value_view>;
#else
using db_t = unodb::olc_db<std::uint64_t, unodb::value_view>;
#endif

static void olc_thread_init() {
#if DBKIND == 2
  static bool done = false;
  if (!done) { done = true; static unodb::detail::set_qsbr_per_thread_in_main_thread reg; }   // registers this (only) thread with QSBR, as the library does at start-up
#endif
}
static unodb::value_view vv(const std::uint8_t* b, std::size_t n) { return unodb::value_view{reinterpret_cast<const std::byte*>(b), n}; }

// uniform access to get(): returns found flag, copies up to 4 value bytes
struct got { bool found; std::size_t size; std::uint8_t b[4]; };
static got do_get(db_t& d, std::uint64_t k) {
  got g{false, 0, {0, 0, 0, 0}};
  auto r = d.get(k);
#if DBKIND == 1
  if (r.first.has_value()) { g.found = true; g.size = r.first->size(); for (std::size_t i = 0; i < g.size && i < 4; i++) g.b[i] = static_cast<std::uint8_t>((*r.first)[i]); }
#else
  if (r.has_value()) { g.found = true; g.size = r->size(); for (std::size_t i = 0; i < g.size && i < 4; i++) g.b[i] = static_cast<std::uint8_t>(r->begin()[static_cast<std::ptrdiff_t>(i)]); }
#endif
  return g;
}
static void qstate() {
#if DBKIND == 2
  unodb::this_thread().quiescent();
#endif
}

// ---------------------------------------------------------------- from empty: two symbolic keys
HARNESS(h_two_keys) {
  static db_t d;
  std::uint64_t k1 = in_u64(), k2 = in_u64(), q = in_u64();
  std::uint8_t v1[2] = {in_u8(), in_u8()}, v2[2] = {in_u8(), in_u8()};
  std::size_t n1 = in_range(0, 2), n2 = in_range(0, 2);
  PROP(d.empty(), "C01: a fresh index is empty");
  PROP(!do_get(d, q).found, "C01: get on the empty index finds nothing");
  PROP(!d.remove(q), "C01: remove on the empty index fails");
  bool r1 = d.insert(k1, vv(v1, n1));
  PROP(r1, "C01: insert into the empty index succeeds");
  PROP(!d.empty(), "C01: index with one entry is not empty");
  bool r2 = d.insert(k2, vv(v2, n2));
  PROP(r2 == (k1 != k2), "C01: insert succeeds iff the key is absent");
  got g = do_get(d, q);
  const bool isk1 = q == k1, isk2 = q == k2 && k1 != k2;
  PROP(g.found == (isk1 || isk2), "C01: get finds exactly the inserted keys");
  if (isk1) { PROP(g.size == n1, "C01: get returns the value length of the creating insert"); for (std::size_t i = 0; i < 2; i++) if (i < n1) PROP(g.b[i] == v1[i], "C01: get returns the bytes of the creating insert (duplicate insert did not alter them)"); }
  if (isk2) { PROP(g.size == n2, "C01: get returns the value length of the creating insert"); for (std::size_t i = 0; i < 2; i++) if (i < n2) PROP(g.b[i] == v2[i], "C01: get returns the bytes of the creating insert"); }
  bool rr = d.remove(q);
  PROP(rr == (isk1 || isk2), "C01: remove succeeds iff the key is present");
  PROP(!do_get(d, q).found, "C01: a removed key is no longer found");
  if (!isk1) { got a = do_get(d, k1); PROP(a.found && a.size == n1, "C01: removing another key keeps the entry"); }
  if (!isk2 && k1 != k2) { got b = do_get(d, k2); PROP(b.found && b.size == n2, "C01: removing another key keeps the entry"); }
  const bool expect_empty = (k1 == k2 && isk1);
  PROP(d.empty() == expect_empty, "C01: empty() iff no entries");
  OBSERVE(r2); OBSERVE(g.found); OBSERVE(g.size); OBSERVE(g.b[0]); OBSERVE(rr); OBSERVE(d.empty());
  qstate();
  WITNESS();
}

// ---------------------------------------------------------------- smaller two-key variants (1-byte values)
static std::uint8_t one = 0x11, two = 0x22;
HARNESS(h2_get) {
  olc_thread_init();
  static db_t d;
  std::uint64_t k1 = in_u64(), k2 = in_u64(), q = in_u64();
  bool r1 = d.insert(k1, vv(&one, 1));
  bool r2 = d.insert(k2, vv(&two, 1));
  PROP(r1, "C01: insert into the empty index succeeds");
  PROP(r2 == (k1 != k2), "C01: insert succeeds iff the key is absent");
  got g = do_get(d, q);
  PROP(g.found == (q == k1 || q == k2), "C01: get finds exactly the inserted keys");
  if (g.found) PROP(g.size == 1 && g.b[0] == (q == k1 ? 0x11 : 0x22), "C01: get returns the bytes of the creating insert (a duplicate insert does not alter them)");
  OBSERVE(r2); OBSERVE(g.found); OBSERVE(g.b[0]);
  qstate();
  WITNESS();
}
HARNESS(h2_remove) {
  static db_t d;
  std::uint64_t k1 = in_u64(), k2 = in_u64(), q = in_u64();
  ASSUME(k1 != k2);
  (void)d.insert(k1, vv(&one, 1));
  (void)d.insert(k2, vv(&two, 1));
  bool rr = d.remove(q);
  PROP(rr == (q == k1 || q == k2), "C01: remove succeeds iff the key is present");
  PROP(!d.empty(), "C01: empty() iff no entries");
  got g = do_get(d, k1);
  PROP(g.found == (q != k1), "C01: after remove(q) exactly the other entries remain");
  if (g.found) PROP(g.size == 1 && g.b[0] == 0x11, "C01: surviving entry keeps its value");
  OBSERVE(rr); OBSERVE(g.found);
  qstate();
  WITNESS();
}

// ---------------------------------------------------------------- catalogue: concrete prelude + ONE symbolic operation
// Every prelude is a list of concrete keys inserted in order with value byte = low byte of index + 1.
struct prelude { const std::uint64_t* keys; unsigned n; };
#define B 0x0102030405060700ULL
static const std::uint64_t K_leaf[] = {B | 0x08};
static const std::uint64_t K_i4_2[] = {B | 0x10, B | 0x20};
static const std::uint64_t K_i4_3[] = {B | 0x10, B | 0x20, B | 0x30};
static const std::uint64_t K_i4_4[] = {B | 0x10, B | 0x20, B | 0x30, B | 0x40};                 // full I4: next insert grows to I16
static const std::uint64_t K_i16_5[] = {B | 0x10, B | 0x20, B | 0x30, B | 0x40, B | 0x50};      // min-size I16: a remove shrinks to I4
// two levels: root I4 (prefix 6 bytes) over two I4s (one min-size, one with 3 leaves)
static const std::uint64_t K_2lvl[] = {0x0100, 0x0101, 0x0200, 0x0201, 0x0202};
// two-child root: one leaf + one inode (removing the leaf collapses the root onto the inode, prepending its prefix)
static const std::uint64_t K_collapse[] = {0x01000000000000AAULL, 0x0200000000000001ULL, 0x0200000000000002ULL};
// three levels with prefixes of different lengths
static const std::uint64_t K_3lvl[] = {0x0000000000000000ULL, 0x0000000000000001ULL, 0x0000000000010000ULL, 0x0000000000010001ULL, 0x0000000100000000ULL};
// sparse: differ in the first byte (no prefix at root)
// an inner node below the root with a long key prefix whose bytes all differ (prefix splits at depth > 0)
static const std::uint64_t K_deep[] = {0x0111223344556601ULL, 0x0111223344556602ULL, 0x0200000000000000ULL};
static const std::uint64_t K_sparse[] = {0x0000000000000000ULL, 0x8000000000000000ULL, 0xFF00000000000000ULL};

// value of prelude entry i: byte i+1 repeated vlen(i) times, vlen cycles through 1, 0, 2 (empty values included)
static unsigned vlen(unsigned i) { return i % 3 == 0 ? 1 : (i % 3 == 1 ? 0 : 2); }
static void build(db_t& d, const std::uint64_t* keys, unsigned n) {
  olc_thread_init();
  for (unsigned i = 0; i < n; i++) {
    std::uint8_t v[2] = {static_cast<std::uint8_t>(i + 1), static_cast<std::uint8_t>(i + 1)};
    bool r = d.insert(keys[i], vv(v, vlen(i)));
    PROP(r, "C01: prelude insert of a fresh key succeeds");
  }
}
static int idx_of(const std::uint64_t* keys, unsigned n, std::uint64_t k) {
  int idx = -1;
  for (unsigned i = 0; i < n; i++) if (keys[i] == k) idx = static_cast<int>(i);
  return idx;
}
// after the symbolic step, every prelude key must still map to its value unless it was the removed one
static void probe_all(db_t& d, const std::uint64_t* keys, unsigned n, std::uint64_t removed, bool did_remove) {
  for (unsigned i = 0; i < n; i++) {
    got g = do_get(d, keys[i]);
    const bool gone = did_remove && keys[i] == removed;
    PROP(g.found == !gone, "C01: an operation on one key leaves every other entry in place");
    if (g.found) PROP(g.size == vlen(i) && (g.size == 0 || g.b[0] == static_cast<std::uint8_t>(i + 1)) && (g.size < 2 || g.b[1] == static_cast<std::uint8_t>(i + 1)), "C01: ... and leaves its value (length 0, 1 or 2) unchanged");
    OBSERVE(g.found);
  }
}
template <unsigned N> static void cat_insert(const std::uint64_t (&keys)[N]) {
  static db_t d;
  build(d, keys, N);
  const std::uint64_t k = in_u64();
  const std::uint8_t v = in_u8();
  const int idx = idx_of(keys, N, k);
  const bool r = d.insert(k, vv(&v, 1));
  PROP(r == (idx < 0), "C01: insert succeeds iff the key is absent");
  got g = do_get(d, k);
  PROP(g.found && g.size == (idx < 0 ? 1u : vlen(static_cast<unsigned>(idx))), "C01: an inserted key is found with the value length of the creating insert");
  PROP(g.size == 0 || g.b[0] == (idx < 0 ? v : static_cast<std::uint8_t>(idx + 1)), "C01: get yields the bytes of the insert that created the entry");
  probe_all(d, keys, N, 0, false);
  PROP(!d.empty(), "C01: empty() iff no entries");
  OBSERVE(r); OBSERVE(g.b[0]);
  qstate();
  WITNESS();
}
template <unsigned N> static void cat_remove(const std::uint64_t (&keys)[N]) {
  static db_t d;
  build(d, keys, N);
  const std::uint64_t k = in_u64();
  const int idx = idx_of(keys, N, k);
  const bool r = d.remove(k);
  PROP(r == (idx >= 0), "C01: remove succeeds iff the key is present");
  PROP(!do_get(d, k).found, "C01: a removed (or never inserted) key is not found");
  probe_all(d, keys, N, k, r);
  PROP(d.empty() == (N == 1 && r), "C01: empty() iff no entries");
  OBSERVE(r);
  qstate();
  WITNESS();
}
template <unsigned N> static void cat_get(const std::uint64_t (&keys)[N]) {
  static db_t d;
  build(d, keys, N);
  const std::uint64_t k = in_u64();
  const int idx = idx_of(keys, N, k);
  got g = do_get(d, k);
  PROP(g.found == (idx >= 0), "C01: get finds a key iff it was inserted");
  if (g.found) PROP(g.size == vlen(static_cast<unsigned>(idx)) && (g.size == 0 || g.b[0] == static_cast<std::uint8_t>(idx + 1)), "C01: get yields the bytes of the insert that created the entry");
  OBSERVE(g.found); OBSERVE(g.b[0]);
  qstate();
  WITNESS();
}
// C01, last clause: a value view obtained earlier stays readable and unchanged for as long as its entry exists (OLC: until the caller's next quiescent
// state), whatever else is inserted or removed meanwhile - growth and shrink of the node that holds the entry, prefix splits above it, collapse onto it.
// The view's bytes are re-read through the ORIGINAL pointer after each step; CBMC's pointer checks flag a view into a freed or moved leaf.
#if DBKIND != 1
template <unsigned N, int MODE> static void view_stable(const std::uint64_t (&keys)[N], unsigned held) {   // MODE 0: ONE symbolic insert, MODE 1: ONE symbolic remove (two symbolic operations exhaust the solver's memory)
  static db_t d;
  build(d, keys, N);
  auto r = d.get(keys[held]);
  PROP(r.has_value(), "C01: get finds a key iff it was inserted");
  const auto* p = reinterpret_cast<const std::uint8_t*>(&*r->begin());
  const std::size_t n = r->size();
  PROP(n == vlen(held), "C01: get yields the bytes of the insert that created the entry");
  const std::uint64_t k = in_u64(); const std::uint8_t v = in_u8();
  ASSUME(k != keys[held]);
  bool ins = false, rem = false;
  if constexpr (MODE == 0) {
  ins = d.insert(k, vv(&v, 1));                                   // any key: add / grow / leaf split / prefix split (or duplicate)
  for (std::size_t i = 0; i < n; i++) PROP(p[i] == static_cast<std::uint8_t>(held + 1), "C01: a value view obtained earlier stays readable and unchanged while its entry exists (after an insert of any other key)");
  } else {
  rem = d.remove(k);                                              // any other key: remove / shrink / collapse onto the holder (or absent)
  for (std::size_t i = 0; i < n; i++) PROP(p[i] == static_cast<std::uint8_t>(held + 1), "C01: a value view obtained earlier stays readable and unchanged while its entry exists (after a remove of any other key)");
  }
  OBSERVE(ins); OBSERVE(rem);
#if DBKIND == 2
  PROP(d.remove(keys[held]), "C01: remove succeeds iff the key is present");   // OLC: even the entry's own removal leaves the view readable until the next quiescent state
  for (std::size_t i = 0; i < n; i++) PROP(p[i] == static_cast<std::uint8_t>(held + 1), "C01: OLC index: a value view stays readable and unchanged at least until the caller's next quiescent state, even if the entry is removed");
#endif
  qstate();
  WITNESS();
}
HARNESS(view_ins_i4_4) { view_stable<4, 0>(K_i4_4, 2); }           // full I4: the insert grows it to I16
HARNESS(view_rem_i16_5) { view_stable<5, 1>(K_i16_5, 2); }         // min-size I16: the remove shrinks it to I4
HARNESS(view_rem_collapse) { view_stable<3, 1>(K_collapse, 0); }   // the holder is the leaf next to a two-child inner node: the remove collapses that node / the root onto it
HARNESS(view_ins_collapse) { view_stable<3, 0>(K_collapse, 0); }   // prefix split / leaf split around the holder
HARNESS(view_ins_leaf) { view_stable<1, 0>(K_leaf, 0); }           // root leaf: leaf split
#endif
// larger size classes: built by concrete inserts (growth chain I4 -> I16 -> I48 -> I256), optionally shrunk again by concrete removes, then ONE symbolic get
template <unsigned N, unsigned NDEL> static void big_get() {
  static db_t d;
  olc_thread_init();
  for (unsigned i = 0; i < N; i++) { std::uint8_t v = static_cast<std::uint8_t>(i + 1); bool r = d.insert(B | (i * 5 + 2), vv(&v, 1)); PROP(r, "C01: prelude insert of a fresh key succeeds"); }
  for (unsigned i = 0; i < NDEL; i++) PROP(d.remove(B | (((i * 7) % N) * 5 + 2)), "C01: prelude remove of a present key succeeds");   // removes entries (7i mod N): scattered, N is coprime to 7
  const std::uint64_t k = in_u64();
  int idx = -1;
  for (unsigned i = 0; i < N; i++) { bool removed = false; for (unsigned j = 0; j < NDEL; j++) if ((j * 7) % N == i) removed = true; if (k == (B | (i * 5 + 2)) && !removed) idx = static_cast<int>(i); }
  got g = do_get(d, k);
  PROP(g.found == (idx >= 0), "C01: get finds a key iff it was inserted and not removed (after growth/shrink between node size classes)");
  if (g.found) PROP(g.size == 1 && g.b[0] == static_cast<std::uint8_t>(idx + 1), "C01: get yields the bytes of the insert that created the entry");
  OBSERVE(g.found); OBSERVE(g.b[0]);
  qstate();
  WITNESS();
}
// key-prefix splits BELOW the root at three positions of a six-byte prefix (concrete), one collapse back, then ONE symbolic get
HARNESS(deep_split_get) {
  static db_t d;
  olc_thread_init();
  static const std::uint64_t ks[] = {0x0111223344556601ULL, 0x0111223344556602ULL, 0x0200000000000000ULL,      // root {01 -> I4 with prefix 11 22 33 44 55 66, 02 -> leaf}
                                     0x0111229900000000ULL, 0x0111223344559900ULL, 0x0111223399000000ULL};    // splits after 2, 5 and 3 prefix bytes
  for (unsigned i = 0; i < 6; i++) { std::uint8_t v = static_cast<std::uint8_t>(i + 1); PROP(d.insert(ks[i], vv(&v, 1)), "C01: prelude insert of a fresh key succeeds"); }
  PROP(d.remove(ks[4]), "C01: prelude remove of a present key succeeds");                                      // the two-child node created by the second split collapses again (prefix prepend)
  const std::uint64_t k = in_u64();
  int idx = -1; for (unsigned i = 0; i < 6; i++) if (i != 4 && ks[i] == k) idx = static_cast<int>(i);
  got g = do_get(d, k);
  PROP(g.found == (idx >= 0), "C01: get finds a key iff it was inserted and not removed (after key-prefix splits and a collapse below the root)");
  if (g.found) PROP(g.size == 1 && g.b[0] == static_cast<std::uint8_t>(idx + 1), "C01: get yields the bytes of the insert that created the entry");
  OBSERVE(g.found); OBSERVE(g.b[0]);
  qstate();
  WITNESS();
}
// a two-child node collapses onto an inner child that was created by a LEAF SPLIT: such a child's prefix word still carries the bytes of its first key
// beyond the prefix length (a child created by a prefix cut does not), so the merge must mask them (seed C01d).  Concrete prelude, ONE symbolic get.
template <unsigned CASE> static void lsplit_collapse() {
  static db_t d;
  olc_thread_init();
  static const std::uint64_t cs[3][4] = {
    {0x0200000000000000ULL, 0x0100000000000002ULL, 0x0100000000010000ULL, 0},                           // child prefix 00 00 00 00, stale bytes 00 00 02
    {0x0200000000000000ULL, 0x0111223344556677ULL, 0x0111223399000000ULL, 0},                           // child prefix 11 22 33, stale bytes 44 55 66 77
    {0xFF00000000000000ULL, 0x0111220200000000ULL, 0x0111220133445566ULL, 0x0111220133449900ULL}};      // the collapsing node sits below the root and has a prefix of its own
  const unsigned n = CASE == 2 ? 4 : 3;
  const unsigned del = CASE == 2 ? 1 : 0;
  for (unsigned i = 0; i < n; i++) { std::uint8_t v = static_cast<std::uint8_t>(i + 1); PROP(d.insert(cs[CASE][i], vv(&v, 1)), "C01: prelude insert of a fresh key succeeds"); }
  PROP(d.remove(cs[CASE][del]), "C01: prelude remove of a present key succeeds");
  const std::uint64_t k = in_u64();
  int idx = -1; for (unsigned i = 0; i < n; i++) if (i != del && cs[CASE][i] == k) idx = static_cast<int>(i);
  got g = do_get(d, k);
  PROP(g.found == (idx >= 0), "C01: get finds a key iff it was inserted and not removed (after a collapse onto an inner node created by a leaf split)");
  if (g.found) PROP(g.size == 1 && g.b[0] == static_cast<std::uint8_t>(idx + 1), "C01: get yields the bytes of the insert that created the entry");
  for (unsigned i = 0; i < n; i++) if (i != del) { PROP(!d.insert(cs[CASE][i], vv(nullptr, 0)), "C01: insert of a present key fails (after the collapse)"); }
  for (unsigned i = 0; i < n; i++) if (i != del) { PROP(d.remove(cs[CASE][i]), "C01: remove of a present key succeeds (after the collapse)"); }
  PROP(d.empty(), "C01: empty() once every entry has been removed");
  OBSERVE(g.found); OBSERVE(g.b[0]);
  qstate();
  WITNESS();
}
HARNESS(lsplit_collapse_0) { lsplit_collapse<0>(); }
HARNESS(lsplit_collapse_1) { lsplit_collapse<1>(); }
HARNESS(lsplit_collapse_2) { lsplit_collapse<2>(); }
// big nodes whose children sit at the boundary key bytes (0x00, 0x01, 0x7F, 0x80, 0x81, 0xFE, 0xFF: sign, sentinel and SIMD-lane edges), then ONE
// remove of a boundary key (constant per entry; 02 = absent), then a get of that key and of a second key symbolic in the child-selecting byte
// key bytes in ASCENDING order (inserting in another order did not fold: no verdict in 900 s): the seven boundary bytes plus fillers 4+5j
static std::uint8_t bbyte_tab[64];
static void bbyte_init(unsigned n) {
  static const std::uint8_t e[] = {0x00, 0x01, 0x7F, 0x80, 0x81, 0xFE, 0xFF};
  unsigned m = 0;
  for (unsigned i = 0; i < 7; i++) bbyte_tab[m++] = e[i];
  for (unsigned j = 0; m < n; j++) { const std::uint8_t c = static_cast<std::uint8_t>(4 + 5 * j); bool dup = false; for (unsigned i = 0; i < 7; i++) if (e[i] == c) dup = true; if (!dup) bbyte_tab[m++] = c; }
  for (unsigned i = 1; i < n; i++) { const std::uint8_t x = bbyte_tab[i]; unsigned p = i; while (p > 0 && bbyte_tab[p - 1] > x) { bbyte_tab[p] = bbyte_tab[p - 1]; p--; } bbyte_tab[p] = x; }
}
static std::uint8_t bbyte(unsigned i) { return bbyte_tab[i]; }
template <unsigned N> static void big_rem(std::uint8_t kb) {
  static db_t d;
  olc_thread_init();
  bbyte_init(N);
  for (unsigned i = 0; i < N; i++) { std::uint8_t v = static_cast<std::uint8_t>(i + 1); bool r = d.insert(B | bbyte(i), vv(&v, 1)); PROP(r, "C01: prelude insert of a fresh key succeeds"); }
  const std::uint64_t k = B | kb, k2 = B | in_u8();          // the removed key is a constant per entry (a symbolic one makes the freed leaf symbolic: no verdict in 900 s)
  int idx = -1, idx2 = -1;
  for (unsigned i = 0; i < N; i++) { if (k == (B | bbyte(i))) idx = static_cast<int>(i); if (k2 == (B | bbyte(i))) idx2 = static_cast<int>(i); }
  const bool r = d.remove(k);
  PROP(r == (idx >= 0), "C01: remove succeeds iff the key is present (big node, boundary key bytes)");
  got g = do_get(d, k);
  PROP(!g.found, "C01: a removed (or absent) key is not found (big node, boundary key bytes)");
  got g2 = do_get(d, k2);
  PROP(g2.found == (idx2 >= 0 && k2 != k), "C01: the other entries are untouched by the remove (big node, boundary key bytes)");
  if (g2.found) PROP(g2.size == 1 && g2.b[0] == static_cast<std::uint8_t>(idx2 + 1), "C01: get yields the bytes of the insert that created the entry");
  PROP(!d.empty(), "C01: empty() is false while entries remain");
  OBSERVE(r); OBSERVE(g2.found);
  qstate();
  WITNESS();
}
#define BIGREM(bb) HARNESS(big_rem48_##bb) { big_rem<20>(0x##bb); } HARNESS(big_rem256_##bb) { big_rem<51>(0x##bb); }
BIGREM(00) BIGREM(01) BIGREM(7F) BIGREM(80) BIGREM(81) BIGREM(FE) BIGREM(FF) BIGREM(02)
HARNESS(big_i48) { big_get<20, 0>(); }           // I4 -> I16 -> I48
HARNESS(big_i256) { big_get<51, 0>(); }          // ... -> I256
HARNESS(big_shr16) { big_get<17, 1>(); }         // min-size I48 shrinks to I16
HARNESS(big_shr48) { big_get<49, 1>(); }         // min-size I256 shrinks to I48
HARNESS(big_shr4) { big_get<18, 14>(); }         // I48 -> I16 -> I4
#define CAT(name) \
  HARNESS(ins_##name) { cat_insert(K_##name); } \
  HARNESS(rem_##name) { cat_remove(K_##name); } \
  HARNESS(get_##name) { cat_get(K_##name); }
CAT(leaf) CAT(i4_2) CAT(i4_3) CAT(i4_4) CAT(i16_5) CAT(2lvl) CAT(collapse) CAT(3lvl) CAT(sparse) CAT(deep)
