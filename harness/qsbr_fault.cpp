// C08 (QSBR side): allocation failures inside deferred-deallocation requests, resume and thread start.
// (ghost bookkeeping shared with qsbr_conc.cpp)  C05 / C06: scripted programs over 3-4 simulated QSBR threads (each its own qsbr_per_thread), real qsbr.hpp/qsbr.cpp.
// One call (thread A's) runs with a preemption point before every atomic access; at the chosen one the other threads run
// a short script of complete calls (own sequentialisation, preemption bound 1).
// Every free performed by QSBR is intercepted (entry hook on qsbr::deallocate) and checked against ghost bookkeeping.
#include "verif.hpp"
#include <algorithm>
#include <array>
#include <atomic>
#include <cstring>
#include <iostream>
#include <memory>
#include <optional>
#include <sstream>
#include <thread>
#include <mutex>
#include <vector>
#include <system_error>
#include <functional>
#include <unordered_set>
#include <iomanip>
#include <string>
#include <string_view>
#include <cstdlib>
#include <cerrno>
#include <new>
#include <cassert>
#define private public
#include "qsbr.hpp"
#include "qsbr.cpp"
#undef private
using namespace unodb;
#ifndef NT
#define NT 4
#endif
#ifndef STEPS
#define STEPS 4
#endif
#define MAXOBJ 8
extern "C" std::uint64_t verif_fixed_k(void) noexcept;
#ifdef FAULT_FIXED
#define FAULT_INDEX(hi) ((void)in_u8(), verif_fixed_k())    // fault position fixed by the generated entry wrapper <scenario>__f<N>: folds in seconds where the path-wise symbolic position takes minutes
#else
#define FAULT_INDEX(hi) in_range(0, hi)
#endif
struct ghost_obj { void* p; unsigned waiting; unsigned freed; };     // waiting: bit t set = thread t was registered at retire time and has not quiesced/paused since
static ghost_obj objs[MAXOBJ]; static unsigned nobj;
static unsigned early_free, unknown_free;
extern "C" void verif_on_free(void* p) noexcept {      // called at the entry of qsbr::deallocate(void*)
  bool found = false;
  for (unsigned i = 0; i < MAXOBJ; i++) if (i < nobj && objs[i].p == p) { found = true; if (objs[i].waiting != 0) early_free++; objs[i].freed++; }
  if (!found) unknown_free++;
}
static qsbr_per_thread* T[NT]; static bool active[NT];
static bool busy[NT];   // inside a quiescent()/pause call: holds no references and cannot obtain one to an object retired meanwhile
static void passed(unsigned t) { for (unsigned i = 0; i < MAXOBJ; i++) if (i < nobj) objs[i].waiting &= ~(1u << t); }   // t passes a quiescent state / leaves
static unsigned nactive() { unsigned n = 0; for (unsigned t = 0; t < NT; t++) if (active[t]) n++; return n; }
static void check_now() {
  PROP(early_free == 0, "C05: no deferred deallocation runs while another thread registered at request time has yet to quiesce, pause or exit");
  PROP(unknown_free == 0, "C06: QSBR frees only pointers that were handed to it");
  for (unsigned i = 0; i < MAXOBJ; i++) if (i < nobj) PROP(objs[i].freed <= 1, "C06: a deferred deallocation never runs twice");
  PROP(qsbr_state::get_thread_count(qsbr::instance().get_state()) == nactive(), "C06: the reported registered-thread count equals started-or-resumed minus paused-or-exited threads");
}
static void act(unsigned t, unsigned a) {
  if (a > 3) return;
  qsbr_per_thread& th = *T[t];
  if (a == 0 && active[t]) { passed(t); busy[t] = true; th.quiescent(); busy[t] = false; }
  else if (a == 1 && active[t] && nobj < MAXOBJ) {
    void* p = detail::allocate_aligned(8);
    unsigned w = 0; for (unsigned u = 0; u < NT; u++) if (u != t && active[u] && !busy[u]) w |= 1u << u;
    objs[nobj].p = p; objs[nobj].waiting = w; objs[nobj].freed = 0; nobj++;
    th.on_next_epoch_deallocate(p);
  }
  else if (a == 2 && active[t]) { passed(t); busy[t] = true; th.qsbr_pause(); busy[t] = false; active[t] = false; }
  else if (a == 3 && !active[t]) { th.qsbr_resume(); active[t] = true; }
}
#include <new>
static unsigned count_now() { return qsbr_state::get_thread_count(qsbr::instance().get_state()); }
// a deferred-deallocation request whose k-th allocation fails (k symbolic; decided path-wise)
struct tstate { std::uint64_t seen, seen_q, nprev, ncur, frees; };
static unsigned total_frees() { unsigned n = 0; for (unsigned i = 0; i < MAXOBJ; i++) if (i < nobj) n += objs[i].freed; return n; }
static tstate tsnap(const qsbr_per_thread& th) {       // what a failed request must leave as it was: the thread's view of the epoch and both of its pending lists
  return tstate{th.last_seen_epoch.epoch_val, th.last_seen_quiescent_state_epoch.epoch_val, th.previous_interval_dealloc_requests.size(), th.current_interval_dealloc_requests.size(), total_frees()};
}
static bool tsame(const tstate& a, const tstate& b) { return a.seen == b.seen && a.seen_q == b.seen_q && a.nprev == b.nprev && a.ncur == b.ncur && a.frees == b.frees; }
// NEWEPOCH: the other threads complete an epoch change after the requester's last quiescent state, so the request is the first call in which it notices the new epoch
template <unsigned WARM, unsigned NEWEPOCH = 0> static void f_retire_n() {
  for (unsigned t = 0; t < 3; t++) { T[t] = new qsbr_per_thread(); active[t] = true; }
  constexpr unsigned warm = WARM;          // requests already queued by the same thread (vector growth paths differ)
  for (unsigned i = 0; i < warm; i++) act(0, 1);
  for (unsigned e = 0; e < NEWEPOCH; e++) { act(0, 0); for (unsigned i = 0; i < warm; i++) act(0, 1); act(1, 0); act(2, 0); }   // each round: requester quiesces first (and retires again), the others finish the epoch
  act(1, 0);
  void* p = detail::allocate_aligned(8);
  const std::uint64_t live0 = verif_live_allocs();
  const tstate t0 = tsnap(*T[0]);
  const std::uint64_t fail = FAULT_INDEX(2);
  verif_fail_alloc_at(fail);
  bool threw = false, other = false;
  try { T[0]->on_next_epoch_deallocate(p); } catch (const std::bad_alloc&) { threw = true; } catch (...) { other = true; }
  const std::uint64_t used = verif_alloc_count();
  verif_fail_alloc_at(0);
  PROP(!other, "C08: an injected allocation failure surfaces as std::bad_alloc");
  PROP(threw == (fail != 0 && fail <= used), "C08: the request throws iff one of its allocations failed");
  if (threw) {
    PROP(verif_live_allocs() == live0, "C08: a failed deferred-deallocation request neither leaks nor frees anything");
    PROP(count_now() == 3, "C08: a failed request leaves the registered-thread count unchanged");
    PROP(tsame(t0, tsnap(*T[0])), "C08: a failed request leaves the requester's epoch view and both pending-request lists unchanged and executes no deferred deallocation");
    *static_cast<std::uint8_t*>(p) = 0x5A;                                   // the block is still the caller's: writable (pointer checks)
    T[0]->on_next_epoch_deallocate(p);                                       // retry without the fault
  }
  objs[nobj].p = p; objs[nobj].waiting = 0; objs[nobj].freed = 0; nobj++;    // from here on QSBR owns it: exactly once after the drain
  act(1, 2); act(2, 2); act(0, 0); act(0, 0); act(0, 0);
  check_now();
  for (unsigned i = 0; i < MAXOBJ; i++) if (i < nobj) PROP(objs[i].freed == 1, "C08: after the (retried) request and the drain every block handed to QSBR has been freed exactly once");
  OBSERVE(threw);
  WITNESS();
}
HARNESS(f_retire_0) { f_retire_n<0>(); }
HARNESS(f_retire_1) { f_retire_n<1>(); }
HARNESS(f_retire_2) { f_retire_n<2>(); }
HARNESS(f_retire_1_newepoch) { f_retire_n<1, 1>(); }
HARNESS(f_retire_1_newepoch2) { f_retire_n<1, 2>(); }
HARNESS(f_resume) {
  for (unsigned t = 0; t < 2; t++) { T[t] = new qsbr_per_thread(); active[t] = true; }
  act(0, 1); act(0, 2);                                                      // thread 0 retires something and pauses
  const std::uint64_t live0 = verif_live_allocs();
  const std::uint64_t fail = FAULT_INDEX(3);
  verif_fail_alloc_at(fail);
  bool threw = false, other = false;
  try { T[0]->qsbr_resume(); } catch (const std::bad_alloc&) { threw = true; } catch (...) { other = true; }
  const std::uint64_t used = verif_alloc_count();
  verif_fail_alloc_at(0);
  PROP(!other, "C08: an injected allocation failure surfaces as std::bad_alloc");
  PROP(threw == (fail != 0 && fail <= used), "C08: resume throws iff one of its allocations failed");
  if (threw) {
    PROP(T[0]->is_qsbr_paused() && count_now() == 1, "C08: a failed resume leaves the thread paused and the registered-thread count unchanged");
    PROP(verif_live_allocs() <= live0 + 1, "C08: a failed resume holds at most the one list node it already allocated (owned by the thread object, released by the retry)");
    T[0]->qsbr_resume();
  }
  PROP(verif_live_allocs() == live0 + 2, "C08: after the (retried) resume exactly the two fresh list nodes are held: nothing leaked by the failed attempt");
  active[0] = true;
  PROP(!T[0]->is_qsbr_paused() && count_now() == 2, "C08: without the fault resume registers the thread");
  act(0, 1); act(1, 2); act(0, 0); act(0, 0); act(0, 0);
  check_now();
  for (unsigned i = 0; i < MAXOBJ; i++) if (i < nobj) PROP(objs[i].freed == 1, "C08: after the drain every deferred deallocation has run exactly once");
  OBSERVE(threw);
  WITNESS();
}
HARNESS(f_thread_start) {
  T[0] = new qsbr_per_thread(); active[0] = true;
  const std::uint64_t live0 = verif_live_allocs();
  const std::uint64_t fail = FAULT_INDEX(4);
  verif_fail_alloc_at(fail);
  bool threw = false, other = false; qsbr_per_thread* nt = nullptr;
  try { nt = new qsbr_per_thread(); } catch (const std::bad_alloc&) { threw = true; } catch (...) { other = true; }
  const std::uint64_t used = verif_alloc_count();
  verif_fail_alloc_at(0);
  PROP(!other, "C08: an injected allocation failure surfaces as std::bad_alloc");
  PROP(threw == (fail != 0 && fail <= used), "C08: thread start throws iff one of its allocations failed");
  if (threw) {
    PROP(count_now() == 1, "C08: a failed thread start leaves the registered-thread count unchanged");
    PROP(verif_live_allocs() == live0, "C08: a failed thread start leaks nothing");
    nt = new qsbr_per_thread();
  }
  T[1] = nt; active[1] = true;
  PROP(count_now() == 2, "C08: without the fault the new thread is registered");
  act(1, 1); act(1, 2); act(0, 0); act(0, 0);
  check_now();
  OBSERVE(threw);
  WITNESS();
}
