// C02 (L3): scan / scan_from / scan_range on catalogue trees with symbolic bounds and symbolic halting position.
#include "verif.hpp"
#ifndef DBKIND
#define DBKIND 0
#endif
#if DBKIND == 0
#include "art.hpp"
#elif DBKIND == 1
#include "mutex_art.hpp"
#else
#include "olc_art.hpp"
#include "qsbr.cpp"
#include "qsbr_ptr.cpp"
#endif
using namespace unodb;
#if DBKIND == 0
using db_t = unodb::db<std::uint64_t, unodb::value_view>;
#elif DBKIND == 1
using db_t = unodb::mutex_db<std::uint64_t, unodb::value_view>;
#else
using db_t = unodb::olc_db<std::uint64_t, unodb::value_view>;
#endif

static void olc_thread_init() {
#if DBKIND == 2
  static bool done = false;
  if (!done) { done = true; static unodb::detail::set_qsbr_per_thread_in_main_thread reg; }   // registers this (only) thread with QSBR, as the library does at start-up
#endif
}
static unodb::value_view vv(const std::uint8_t* b, std::size_t n) { return unodb::value_view{reinterpret_cast<const std::byte*>(b), n}; }

// all key lists are ascending, value byte of keys[i] is i+1
#define B 0x0102030405060700ULL
static const std::uint64_t K_leaf[] = {B | 0x08};
static const std::uint64_t K_i4_3[] = {B | 0x10, B | 0x20, B | 0x30};
static const std::uint64_t K_i16_5[] = {B | 0x10, B | 0x20, B | 0x30, B | 0x40, B | 0x50};
static const std::uint64_t K_2lvl[] = {0x0100, 0x0101, 0x0200, 0x0201, 0x0202};
static const std::uint64_t K_3lvl[] = {0x0000000000000000ULL, 0x0000000000000001ULL, 0x0000000000010000ULL, 0x0000000000010001ULL, 0x0000000100000000ULL};
// the shape on which the pinned tree loses entries: a bound whose next byte is larger (smaller) than every child of an inner node below the root
static const std::uint64_t K_fall[] = {0x0000, 0x0001, 0x0100, 0x0101, 0x20000};
// minimal fall-off shape: root I4 { 00 -> I4 {00,01}, 02 -> leaf }
static const std::uint64_t K_fall2[] = {0x0000, 0x0001, 0x0200};
// larger size classes (built through the growth chain I4 -> I16 -> I48 -> I256)
static const std::uint64_t K_i48[] = {B | 0x02, B | 0x07, B | 0x0c, B | 0x11, B | 0x16, B | 0x1b, B | 0x20, B | 0x25, B | 0x2a, B | 0x2f, B | 0x34, B | 0x39, B | 0x3e, B | 0x43, B | 0x48, B | 0x4d, B | 0x52, B | 0x57, B | 0x5c, B | 0x61};
static const std::uint64_t K_i256[] = {B | 0x02, B | 0x07, B | 0x0c, B | 0x11, B | 0x16, B | 0x1b, B | 0x20, B | 0x25, B | 0x2a, B | 0x2f, B | 0x34, B | 0x39, B | 0x3e, B | 0x43, B | 0x48, B | 0x4d, B | 0x52, B | 0x57, B | 0x5c, B | 0x61, B | 0x66, B | 0x6b, B | 0x70, B | 0x75, B | 0x7a, B | 0x7f, B | 0x84, B | 0x89, B | 0x8e, B | 0x93, B | 0x98, B | 0x9d, B | 0xa2, B | 0xa7, B | 0xac, B | 0xb1, B | 0xb6, B | 0xbb, B | 0xc0, B | 0xc5, B | 0xca, B | 0xcf, B | 0xd4, B | 0xd9, B | 0xde, B | 0xe3, B | 0xe8, B | 0xed, B | 0xf2, B | 0xf7, B | 0xfc};
static const std::uint64_t K_sparse[] = {0x0000000000000000ULL, 0x8000000000000000ULL, 0xFF00000000000000ULL};

static void build(db_t& d, const std::uint64_t* keys, unsigned n) {
  for (unsigned i = 0; i < n; i++) {
    std::uint8_t v = static_cast<std::uint8_t>(i + 1);
    bool r = d.insert(keys[i], vv(&v, 1));
    PROP(r, "C02: prelude insert of a fresh key succeeds");
  }
}

#define MAXREC 56
struct rec { unsigned n; unsigned halt_at; unsigned calls_after_halt; bool halted; std::uint64_t keys[MAXREC]; std::uint8_t vals[MAXREC]; std::size_t ksz[MAXREC]; std::size_t vsz[MAXREC]; };

template <class V> static bool visit(rec& r, const V& v) {
  if (r.halted) r.calls_after_halt++;
  auto kv = v.get_key();
  auto val = v.get_value();
  std::uint64_t k = 0;
  for (std::size_t i = 0; i < 8 && i < kv.size(); i++) k = (k << 8) | static_cast<std::uint8_t>(kv[i]);
  if (r.n < MAXREC) { r.keys[r.n] = k; r.ksz[r.n] = kv.size(); r.vsz[r.n] = val.size(); r.vals[r.n] = val.size() > 0 ? static_cast<std::uint8_t>(val[0]) : 0; }
  r.n++;
  if (r.n >= r.halt_at) { r.halted = true; return true; }
  return false;
}

// oracle: expected visit sequence = indices of keys (ascending list) inside the interval, in scan order, cut at halt_at
// mode 0: all fwd, 1: all rev, 2: from k fwd (>= k), 3: from k rev (<= k), 4: range [a,b) fwd if a<b, (b,a] rev if a>b, nothing if equal
static void check(const rec& r, const std::uint64_t* keys, unsigned n, int mode, std::uint64_t a, std::uint64_t b) {
  bool fwd = (mode == 0 || mode == 2 || (mode == 4 && a < b));
  unsigned exp = 0;
  for (unsigned s = 0; s < n; s++) {
    const unsigned i = fwd ? s : n - 1 - s;
    const std::uint64_t k = keys[i];
    bool in = true;
    if (mode == 2) in = k >= a;
    if (mode == 3) in = k <= a;
    if (mode == 4) in = a < b ? (k >= a && k < b) : (a > b ? (k <= a && k > b) : false);
    if (!in) continue;
    if (exp < r.halt_at && exp < MAXREC) {
      PROP(r.n > exp, "C02: every entry of the requested interval is visited (until the visitor halts)");
      if (r.n > exp) {
        PROP(r.keys[exp] == k && r.ksz[exp] == 8, "C02: entries are visited in key order, each presenting its own key");
        PROP(r.vals[exp] == static_cast<std::uint8_t>(i + 1) && r.vsz[exp] == 1, "C02: the visitor sees the entry's value bytes");
      }
    }
    exp++;
  }
  const unsigned want = exp < r.halt_at ? exp : r.halt_at;
  PROP(r.n == want, "C02: the visitor is called exactly once per entry of the interval and never after it returned true");
  PROP(r.calls_after_halt == 0, "C02: the scan ends as soon as the visitor returns true");
  OBSERVE(r.n);
  for (unsigned i = 0; i < r.n && i < MAXREC; i++) OBSERVE(r.keys[i]);
}

template <unsigned N> static void run_scan(const std::uint64_t (&keys)[N], int mode) {
  static db_t d;
  build(d, keys, N);
  rec r{};
  r.halt_at = static_cast<unsigned>(in_range(1, N + 1));
  std::uint64_t a = 0, b = 0;
  if (mode >= 2) a = in_u64();
  if (mode == 4) b = in_u64();
  auto fn = [&r](const auto& v) { return visit(r, v); };
  if (mode == 0) d.scan(fn, true);
  else if (mode == 1) d.scan(fn, false);
  else if (mode == 2) d.scan_from(a, fn, true);
  else if (mode == 3) d.scan_from(a, fn, false);
  else d.scan_range(a, b, fn);
  check(r, keys, N, mode, a, b);
#if DBKIND == 2
  unodb::this_thread().quiescent();
#endif
  WITNESS();
}
#define SC(name) \
  HARNESS(scan_fwd_##name) { run_scan(K_##name, 0); } \
  HARNESS(scan_rev_##name) { run_scan(K_##name, 1); } \
  HARNESS(from_fwd_##name) { run_scan(K_##name, 2); } \
  HARNESS(from_rev_##name) { run_scan(K_##name, 3); } \
  HARNESS(range_##name) { run_scan(K_##name, 4); }
SC(leaf) SC(i4_3) SC(i16_5) SC(2lvl) SC(3lvl) SC(fall) SC(fall2) SC(sparse) SC(i48) SC(i256)

// empty index: no visits whatever the bound
HARNESS(scan_empty) {
  static db_t d;
  rec r{}; r.halt_at = 1;
  auto fn = [&r](const auto& v) { return visit(r, v); };
  const std::uint64_t a = in_u64(), b = in_u64();
  d.scan(fn, true); d.scan(fn, false); d.scan_from(a, fn, true); d.scan_from(a, fn, false); d.scan_range(a, b, fn);
  PROP(r.n == 0, "C02: scans of an empty index visit nothing");
  WITNESS();
}

// ---------------------------------------------------------------- iterator-level: one symbolic seek (+ at most one step)
#if DBKIND != 1
static std::uint64_t it_key(db_t::iterator& it) {
  auto kv = it.get_key();
  std::uint64_t k = 0;
  for (std::size_t i = 0; i < 8 && i < kv.size(); i++) k = (k << 8) | static_cast<std::uint8_t>(kv[i]);
  return k;
}
// steps: 0 = seek only, 1 = seek then one next()/prior() in the scan direction
template <unsigned N> static void run_seek(const std::uint64_t (&keys)[N], bool fwd, int steps) {
  static db_t d;
  build(d, keys, N);
  const std::uint64_t k = in_u64();
  // oracle: index of the first entry >= k (fwd) / last entry <= k (rev); N = none
  unsigned pos = N;
  if (fwd) { for (unsigned i = N; i-- > 0;) if (keys[i] >= k) pos = i; }
  else { for (unsigned i = 0; i < N; i++) if (keys[i] <= k) pos = i; }
  auto it = d.test_only_iterator();
  bool match = false;
  it.seek(unodb::detail::basic_art_key<std::uint64_t>{k}, match, fwd);
  PROP(it.valid() == (pos < N), "C02: seek lands on an entry iff the interval [bound, end) in scan direction is not empty");
  if (it.valid() && pos < N) {
    PROP(it_key(it) == keys[pos], "C02: seek lands on the first entry at or after the bound in scan direction");
    PROP(match == (keys[pos] == k), "C02: seek reports an exact match iff the bound is a stored key");
    auto val = it.get_val();
    PROP(val.size() == 1 && static_cast<std::uint8_t>(val[0]) == static_cast<std::uint8_t>(pos + 1), "C02: the entry's value is presented");
    OBSERVE(it_key(it));
    if (steps == 1) {
      if (fwd) it.next(); else it.prior();
      const bool more = fwd ? (pos + 1 < N) : (pos > 0);
      PROP(it.valid() == more, "C02: stepping from the sought entry reaches the end iff it was the last one in scan direction");
      if (it.valid() && more) PROP(it_key(it) == keys[fwd ? pos + 1 : pos - 1], "C02: stepping from the sought entry yields its neighbour in key order");
    }
  }
  OBSERVE(it.valid()); OBSERVE(match);
#if DBKIND == 2
  unodb::this_thread().quiescent();
#endif
  WITNESS();
}
#define SK(name) \
  HARNESS(seek_fwd_##name) { run_seek(K_##name, true, 0); } \
  HARNESS(seek_rev_##name) { run_seek(K_##name, false, 0); } \
  HARNESS(seek_fwd_step_##name) { run_seek(K_##name, true, 1); } \
  HARNESS(seek_rev_step_##name) { run_seek(K_##name, false, 1); }
SK(leaf) SK(i4_3) SK(i16_5) SK(2lvl) SK(3lvl) SK(fall) SK(fall2) SK(sparse)
#endif
