// C04 (sequential part): with a second thread registered with QSBR, no OLC operation hands a node straight back to the allocator - every
// node it unlinks (replaced by a larger / smaller one, dissolved, or a removed leaf) goes to deferred reclamation and is freed exactly once,
// after both threads have quiesced.  One chain grows a single node through every size class (I4 -> I16 -> I48 -> I256) and shrinks it back.
// Frees are observed by entry hooks injected by the translator at detail::free_aligned and qsbr::deallocate.
#include "verif.hpp"
#include <algorithm>
#include <array>
#include <atomic>
#include <cstring>
#include <iostream>
#include <memory>
#include <optional>
#include <span>
#include <sstream>
#include <stack>
#include <thread>
#include <mutex>
#include <type_traits>
#include <vector>
#include <bit>
#include <system_error>
#include <functional>
#include <unordered_set>
#include <iomanip>
#include <string>
#include <string_view>
#include <cstdlib>
#include <cerrno>
#include <new>
#include <cassert>
#define private public
#include "olc_art.hpp"
#include "qsbr.cpp"
#include "qsbr_ptr.cpp"
#undef private
using namespace unodb;
using db_t = unodb::olc_db<std::uint64_t, unodb::value_view>;
static unodb::value_view vv(const std::uint8_t* b, std::size_t n) { return unodb::value_view{reinterpret_cast<const std::byte*>(b), n}; }


static std::unique_ptr<qsbr_per_thread> other_thread;      // QSBR registration of the thread that is currently NOT running
static void switch_thread() { std::swap(qsbr_per_thread::current_thread_instance, other_thread); }
static std::uint64_t n_free, n_qfree;
extern "C" void verif_on_node_free(void*) noexcept { n_free++; }      // entry of unodb::detail::free_aligned
extern "C" void verif_on_qsbr_free(void*) noexcept { n_qfree++; }     // entry of unodb::qsbr::deallocate (which then calls free_aligned)
static void quiesce_all() { for (int r = 0; r < 3; r++) { unodb::this_thread().quiescent(); switch_thread(); unodb::this_thread().quiescent(); switch_thread(); } }
#ifndef NKEYS
#define NKEYS 49
#endif
HARNESS(r_chain) {
  static unodb::detail::set_qsbr_per_thread_in_main_thread reg;
  other_thread = std::make_unique<qsbr_per_thread>();
  static db_t d;
  const std::uint8_t v = in_u8();
  unsigned grown = 0;
  for (unsigned i = 0; i < NKEYS; i++) {
    const std::uint64_t f0 = n_free, q0 = n_qfree;
    const bool r = d.insert(i, vv(&v, 1));
    PROP(r, "C04: chain insert succeeds");
    PROP(n_free == f0 && n_qfree == q0, "C04: an insert hands nothing back to the allocator while another thread is registered (the replaced node goes to deferred reclamation)");
    if (i == 4 || i == 16 || i == 48) grown++;
  }
  quiesce_all();
  PROP(n_qfree == grown, "C04: every inner node replaced by a larger one is freed exactly once, after both threads quiesced");
  PROP(n_free == n_qfree, "C04: no node is freed other than through deferred reclamation");
  for (unsigned i = 0; i < NKEYS; i++) { auto g = d.get(i); PROP(g.has_value() && g->size() == 1 && static_cast<std::uint8_t>(g->begin()[0]) == v, "C04: every key is still found with its value after the replaced nodes were freed"); }
  unodb::this_thread().quiescent();
  unsigned retired = grown;
  for (unsigned i = NKEYS; i-- > 0;) {
    const std::uint64_t f0 = n_free, q0 = n_qfree;
    const bool r = d.remove(i);
    PROP(r, "C04: chain remove succeeds");
    PROP(n_free == f0 && n_qfree == q0, "C04: a remove hands nothing back to the allocator while another thread is registered (leaf and shrunk / dissolved node go to deferred reclamation)");
    retired++;                                                   // the leaf
    if (i == 48 || i == 16 || i == 4 || i == 1) retired++;       // I256 -> I48 at 48 children, I48 -> I16 at 16, I16 -> I4 at 4, I4 dissolved at 1
    for (unsigned j = 0; j < i; j += 7) { auto g = d.get(j); PROP(g.has_value(), "C04: the remaining keys are found after every removal"); }
  }
  PROP(d.empty(), "C04: the chain ends with an empty index");
  quiesce_all();
  PROP(n_qfree == retired, "C04: every unlinked node (leaves, shrunk and dissolved inner nodes) is freed exactly once after both threads quiesced");
  PROP(n_free == n_qfree, "C04: no node is freed other than through deferred reclamation (whole chain)");
  WITNESS();
}
