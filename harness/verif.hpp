// Common declarations for all harnesses.  A harness is ordinary C++ against the
// real unodb headers; it is compiled three ways:
//   1. clang++ -> LLVM IR -> ir2c -> C -> CBMC        (the deciding run)
//   2. the generated C natively with gcc               (translator validation)
//   3. this very file with g++ against /repo's headers (reference + replay)
// Inputs come only through in_*(); observable results go through OBSERVE();
// properties are PROP(cond, "text"); every harness ends in WITNESS().
#ifndef VERIF_HPP
#define VERIF_HPP
#include <cstddef>
#include <cstdint>

extern "C" {
std::uint64_t in_u64(void) noexcept;
std::uint32_t in_u32(void) noexcept;
std::uint16_t in_u16(void) noexcept;
std::uint8_t in_u8(void) noexcept;
void __CPROVER_assume(bool) noexcept;
void __CPROVER_assert(bool, const char*) noexcept;
void verif_observe(std::uint64_t) noexcept;
void verif_witness(void) noexcept;
// environment hooks implemented in the glue (engine/glue.c) resp. native driver
void verif_fail_alloc_at(std::uint64_t k) noexcept;   // 0 = never; k = fail the k-th allocation from now
std::uint64_t verif_alloc_count(void) noexcept;       // allocations attempted since last arm/reset
std::uint64_t verif_live_allocs(void) noexcept;       // live heap blocks (model) / counted (native)
std::uint64_t verif_live_bytes(void) noexcept;
std::uint64_t verif_mutex_held(void) noexcept;
void verif_mutex_foreign(std::uint64_t on) noexcept;   // 1: every mutex is held by another thread from now on (lock waits = run ends, try_lock fails)
// own sequentialisation (preemption bound 1): the k-th atomic access executed from now on is the preemption point at which verif_interfere() runs
void verif_yield_arm(std::uint64_t k) noexcept;
void verif_yield_disarm(void) noexcept;
std::uint64_t verif_yield_fired(void) noexcept;   // the preemption happened
std::uint64_t verif_yield_seen(void) noexcept;    // atomic accesses executed since arming      // number of std::mutex currently locked (ghost / interposed)
}

#define PROP(c, msg) __CPROVER_assert((c), msg)
#define ASSUME(c) __CPROVER_assume((c))
#define OBSERVE(x) verif_observe(static_cast<std::uint64_t>(x))
#define WITNESS() verif_witness()
#define HARNESS(name) extern "C" void name(void)

static inline std::uint64_t in_range(std::uint64_t lo, std::uint64_t hi) {
  std::uint64_t v = in_u64();
  ASSUME(v >= lo && v <= hi);
  return v;
}
static inline bool in_bool() { return (in_u8() & 1) != 0; }
static inline int sgn(int v) { return v < 0 ? -1 : (v > 0 ? 1 : 0); }

#endif
