// C01: byte-string (key_view) keys at tree level: from the empty index, two fully symbolic keys of equal length (hence prefix-free),
// then lookups of both and of a third symbolic key, removal.
#include "verif.hpp"
#include "art.hpp"
using namespace unodb;
#ifndef LEN
#define LEN 8
#endif
using db_t = unodb::db<unodb::key_view, unodb::value_view>;
static key_view kvw(const std::uint8_t* p) { return key_view{reinterpret_cast<const std::byte*>(p), LEN}; }
HARNESS(h_kv2) {
  static db_t d;
  std::uint8_t k1[LEN], k2[LEN], q[LEN]; const std::uint8_t one = 1, two = 2;
  for (int i = 0; i < LEN; i++) { k1[i] = in_u8(); k2[i] = in_u8(); q[i] = in_u8(); }
  bool same = true, q1 = true, q2 = true;
  for (int i = 0; i < LEN; i++) { if (k1[i] != k2[i]) same = false; if (q[i] != k1[i]) q1 = false; if (q[i] != k2[i]) q2 = false; }
#ifdef SHARE_MAX
  { unsigned sh = 0; for (int i = 0; i < LEN; i++) { if (k1[i] != k2[i]) break; sh++; } ASSUME(sh <= SHARE_MAX || same); }   // restrict to keys sharing at most SHARE_MAX leading bytes
#endif
  const bool r1 = d.insert(kvw(k1), value_view{reinterpret_cast<const std::byte*>(&one), 1});
  const bool r2 = d.insert(kvw(k2), value_view{reinterpret_cast<const std::byte*>(&two), 1});
  PROP(r1, "C01: insert into the empty index succeeds (byte-string key)");
  PROP(r2 == !same, "C01: insert succeeds iff the key is absent (byte-string keys)");
  auto g1 = d.get(kvw(k1)); auto g2 = d.get(kvw(k2)); auto gq = d.get(kvw(q));
  PROP(g1.has_value() && static_cast<std::uint8_t>((*g1)[0]) == 1, "C01: get of the first byte-string key returns the value of the insert that created it");
  PROP(g2.has_value() && static_cast<std::uint8_t>((*g2)[0]) == (same ? 1 : 2), "C01: get of the second byte-string key returns its value");
  PROP(gq.has_value() == (q1 || q2), "C01: get finds exactly the inserted byte-string keys");
  OBSERVE(r2); OBSERVE(g1.has_value()); OBSERVE(g2.has_value()); OBSERVE(gq.has_value());
  WITNESS();
}
