// C03 / C04 / C14: two simulated threads on one olc_db.  Thread A runs one operation with preemption points before every
// atomic access (inserted by the translator); at the k-th of them (k symbolic) thread B runs one complete operation
// (preemption bound 1, the preempting operation is not itself preempted).  Each simulated thread has its own QSBR registration.
#include "verif.hpp"
#include <algorithm>
#include <array>
#include <atomic>
#include <cstring>
#include <iostream>
#include <memory>
#include <optional>
#include <span>
#include <sstream>
#include <stack>
#include <thread>
#include <mutex>
#include <type_traits>
#include <vector>
#include <bit>
#include <system_error>
#include <functional>
#include <unordered_set>
#include <iomanip>
#include <string>
#include <string_view>
#include <cstdlib>
#include <cerrno>
#include <new>
#include <cassert>
#define private public
#include "olc_art.hpp"
#include "art.hpp"
#include "qsbr.cpp"
#include "qsbr_ptr.cpp"
#undef private
using namespace unodb;
using db_t = unodb::olc_db<std::uint64_t, unodb::value_view>;
static unodb::value_view vv(const std::uint8_t* b, std::size_t n) { return unodb::value_view{reinterpret_cast<const std::byte*>(b), n}; }

extern "C" std::uint64_t verif_fixed_k(void) noexcept;
enum { GET = 0, INS = 1, REM = 2 };
struct opdesc { int op; std::uint64_t key; };
struct result { bool ok; std::uint8_t val; };

static db_t* the_db;
static std::unique_ptr<qsbr_per_thread> other_thread;      // QSBR registration of the thread that is currently NOT running
static void switch_thread() { std::swap(qsbr_per_thread::current_thread_instance, other_thread); }

static std::uint8_t valbyte(std::uint64_t k) { return static_cast<std::uint8_t>((k ^ (k >> 8) ^ (k >> 56)) | 0x40); }
static result run_op(db_t& d, opdesc o, const std::uint8_t** held_view, std::size_t* held_len) {
  result r{false, 0};
  if (o.op == GET) {
    auto g = d.get(o.key);
    r.ok = g.has_value();
    if (r.ok) { r.val = g->size() ? static_cast<std::uint8_t>(g->begin()[0]) : 0; if (held_view) { *held_view = reinterpret_cast<const std::uint8_t*>(g->begin().get()); *held_len = g->size(); } }
  } else if (o.op == INS) {
    const std::uint8_t v = valbyte(o.key);
    r.ok = d.insert(o.key, vv(&v, 1));
  } else {
    r.ok = d.remove(o.key);
  }
  return r;
}

static opdesc g_opB; static result g_resB; static bool g_b_done;
extern "C" void verif_interfere(void) {      // thread B: one complete operation at the preemption point
  switch_thread();
  g_resB = run_op(*the_db, g_opB, nullptr, nullptr);
  g_b_done = true;
  switch_thread();
}

// sequential oracle on a tiny set model
#define MAXU 12
struct model { std::uint64_t k[MAXU]; bool in[MAXU]; unsigned n; };
static int midx(const model& m, std::uint64_t key) { for (unsigned i = 0; i < m.n; i++) if (m.k[i] == key) return static_cast<int>(i); return -1; }
static result mop(model& m, opdesc o) {
  const int i = midx(m, o.key);
  result r{false, 0};
  if (o.op == GET) { r.ok = i >= 0 && m.in[i]; r.val = r.ok ? valbyte(o.key) : 0; }
  else if (o.op == INS) { r.ok = !(i >= 0 && m.in[i]); if (r.ok) m.in[i] = true; }
  else { r.ok = i >= 0 && m.in[i]; if (r.ok) m.in[i] = false; }
  return r;
}
static bool same(result a, result b) { return a.ok == b.ok && (!a.ok || a.val == b.val); }

template <unsigned N> static void scenario(const std::uint64_t (&pre)[N], opdesc A, opdesc B, unsigned kmax) {
  static unodb::detail::set_qsbr_per_thread_in_main_thread reg;           // thread A's QSBR registration
  other_thread = std::make_unique<qsbr_per_thread>();                     // thread B's
  static db_t d; the_db = &d;
  model m0{}; m0.n = 0;
  for (unsigned i = 0; i < N; i++) { const std::uint8_t v = valbyte(pre[i]); bool r = d.insert(pre[i], vv(&v, 1)); PROP(r, "C03: prelude insert succeeds"); m0.k[m0.n] = pre[i]; m0.in[m0.n] = true; m0.n++; }
  if (midx(m0, A.key) < 0) { m0.k[m0.n] = A.key; m0.in[m0.n] = false; m0.n++; }
  if (midx(m0, B.key) < 0) { m0.k[m0.n] = B.key; m0.in[m0.n] = false; m0.n++; }
  unodb::this_thread().quiescent(); switch_thread(); unodb::this_thread().quiescent(); switch_thread();
  g_opB = B; g_b_done = false;
#ifdef KSYM
  const std::uint64_t k = in_range(0, kmax);     // symbolic preemption index: measured out of reach (see DESIGN.md), kept for the record
#else
  (void)in_u8(); const std::uint64_t k = verif_fixed_k();   // preemption index fixed by the generated entry wrapper <scenario>__k<N>
  ASSUME(k <= kmax);
#endif
  const std::uint8_t* view = nullptr; std::size_t vlen = 0;
  verif_yield_arm(k);
  const result rA = run_op(d, A, &view, &vlen);
  verif_yield_disarm();
  PROP(verif_yield_seen() < kmax, "C03: the preemption index range covers every atomic access of the operation (bound check)");
  // C04: the bytes behind the view A got are still readable and unchanged before A's quiescent state, whatever B did meanwhile
  if (A.op == GET && rA.ok) PROP(vlen == 1 && view[0] == valbyte(A.key), "C04: a value view stays readable and unchanged until the reader's next quiescent state");
  if (!g_b_done) { switch_thread(); g_resB = run_op(d, B, nullptr, nullptr); g_b_done = true; switch_thread(); }   // not preempted: B runs afterwards
  const result rB = g_resB;
  // linearizability: results and final content equal those of A;B or of B;A
  model m1 = m0, m2 = m0;
  const result a1 = mop(m1, A), b1 = mop(m1, B);     // order A then B
  const result b2 = mop(m2, B), a2 = mop(m2, A);     // order B then A
  const bool fit1 = same(rA, a1) && same(rB, b1), fit2 = same(rA, a2) && same(rB, b2);
  PROP(fit1 || fit2, "C03: the results of the two overlapping operations are those of one of their sequential orders");
  unodb::this_thread().quiescent(); switch_thread(); unodb::this_thread().quiescent(); switch_thread();
  // final content + C14 sweep: every later operation completes without help and sees the linearized state
  bool ok1 = fit1, ok2 = fit2;
  for (unsigned i = 0; i < m0.n; i++) {
    auto g = d.get(m0.k[i]);
    const bool f = g.has_value();
    if (f != m1.in[i]) ok1 = false;
    if (f != m2.in[i]) ok2 = false;
    if (f) PROP(g->size() == 1 && static_cast<std::uint8_t>(g->begin()[0]) == valbyte(m0.k[i]), "C03: surviving entries keep their values");
  }
  PROP(ok1 || ok2, "C03: the final content is that of the same sequential order");
  for (unsigned i = 0; i < m0.n; i++) {   // probes next to every key: insert + remove must both complete and succeed
    const std::uint64_t p = m0.k[i] ^ 0x80;
    if (midx(m0, p) >= 0) continue;
    const std::uint8_t v = 7;
    PROP(d.insert(p, vv(&v, 1)), "C14: a later insert next to every key completes (no lock left held)");
    PROP(d.remove(p), "C14: a later remove next to every key completes (no lock left held)");
  }
  unodb::this_thread().quiescent(); switch_thread(); unodb::this_thread().quiescent(); unodb::this_thread().quiescent(); switch_thread(); unodb::this_thread().quiescent(); unodb::this_thread().quiescent();
#ifdef UNODB_DETAIL_WITH_STATS
  {   // C10 after a concurrent phase, once all threads have quiesced: counters obey the conservation law of node classes and the leaf count equals the number of entries
    const std::uint64_t n4 = d.template get_node_count<node_type::I4>(), n16 = d.template get_node_count<node_type::I16>(), n48 = d.template get_node_count<node_type::I48>(), n256 = d.template get_node_count<node_type::I256>();
    const std::uint64_t g4 = d.template get_growing_inode_count<node_type::I4>(), g16 = d.template get_growing_inode_count<node_type::I16>(), g48 = d.template get_growing_inode_count<node_type::I48>(), g256 = d.template get_growing_inode_count<node_type::I256>();
    const std::uint64_t s4 = d.template get_shrinking_inode_count<node_type::I4>(), s16 = d.template get_shrinking_inode_count<node_type::I16>(), s48 = d.template get_shrinking_inode_count<node_type::I48>(), s256 = d.template get_shrinking_inode_count<node_type::I256>();
    PROP(n4 + g16 + s4 == g4 + s16, "C10: I4 count = created I4 + I16 shrunk to I4 - I4 grown to I16 - I4 dissolved (counters move only with structural events)");
    PROP(n16 + g48 + s16 == g16 + s48, "C10: I16 count = I4 grown + I48 shrunk - I16 grown - I16 shrunk");
    PROP(n48 + g256 + s48 == g48 + s256, "C10: I48 count = I16 grown + I256 shrunk - I48 grown - I48 shrunk");
    PROP(n256 + s256 == g256, "C10: I256 count = I48 grown - I256 shrunk");
    std::uint64_t entries = 0; for (unsigned i = 0; i < m0.n; i++) if ((ok1 ? m1 : m2).in[i]) entries++;
    PROP(d.template get_node_count<node_type::LEAF>() == entries, "C10: reported number of leaves equals the number of entries after the concurrent phase");
    // every counter against the unsynchronised index driven through the same calls in the sequential order the results fit (the sweep's probes included): a restarted
    // attempt must not be counted (seed C10d: the prefix-split counter bumped before the lock upgrades)
    static unodb::db<std::uint64_t, unodb::value_view> refs[2];     // order A;B and order B;A
    bool match[2] = {false, false};
    for (int o = 0; o < 2; o++) {
      auto& ref = refs[o];
      for (unsigned i = 0; i < N; i++) { const std::uint8_t v = valbyte(pre[i]); (void)ref.insert(pre[i], vv(&v, 1)); }
      const opdesc first = o == 0 ? A : B, second = o == 0 ? B : A;
      for (int j = 0; j < 2; j++) { const opdesc q = j == 0 ? first : second; const std::uint8_t v = valbyte(q.key); if (q.op == INS) (void)ref.insert(q.key, vv(&v, 1)); else if (q.op == REM) (void)ref.remove(q.key); }
      for (unsigned i = 0; i < m0.n; i++) { const std::uint64_t p = m0.k[i] ^ 0x80; if (midx(m0, p) >= 0) continue; const std::uint8_t v = 7; (void)ref.insert(p, vv(&v, 1)); (void)ref.remove(p); }
      match[o] = d.get_key_prefix_splits() == ref.get_key_prefix_splits()
                 && g4 == ref.template get_growing_inode_count<node_type::I4>() && g16 == ref.template get_growing_inode_count<node_type::I16>()
                 && s4 == ref.template get_shrinking_inode_count<node_type::I4>() && s16 == ref.template get_shrinking_inode_count<node_type::I16>()
                 && n4 == ref.template get_node_count<node_type::I4>() && n16 == ref.template get_node_count<node_type::I16>();
    }
    PROP((ok1 && match[0]) || (ok2 && match[1]), "C10: prefix-split, growth and shrink counters and inner node counts equal those of the same calls issued one at a time in an order that fits the results (a restarted attempt is not counted)");
  }
#endif
  OBSERVE(rA.ok); OBSERVE(rB.ok);
  WITNESS();
}

#define K0 0x0000000000000000ULL
#define K1 0x0100000000000000ULL
#define K2 0x0100000000000001ULL
static const std::uint64_t P_collapse[] = {K0, K1, K2};                 // root I4 {00 -> leaf, 01 -> I4 {..00, ..01}}
static const std::uint64_t P_full4[] = {1, 2, 3, 4};                     // full I4
static const std::uint64_t P_min16[] = {1, 2, 3, 4, 5};                  // min-size I16
static const std::uint64_t P_leaf[] = {0x0102030405060708ULL};
static const std::uint64_t P_two[] = {0x10, 0x20};
// three inode levels: root {00 -> P, 01 -> leaf}; P (full I4) {00 -> N, 01, 02, 03 -> leaves}; N (full I4) {00..03 -> leaves}
static const std::uint64_t P_nested[] = {0, 1, 2, 3, 0x100, 0x200, 0x300, 0x10000};
#ifndef KMAX
#define KMAX 120
#endif
#define SCEN(name, pre, opa, ka, opb, kb) HARNESS(name) { scenario(pre, opdesc{opa, ka}, opdesc{opb, kb}, KMAX); }
// collapse of a two-child node onto its remaining inner child / onto a leaf while a reader is inside
SCEN(c_get_k1_rem_k0, P_collapse, GET, K1, REM, K0)
SCEN(c_get_k2_rem_k0, P_collapse, GET, K2, REM, K0)
SCEN(c_get_k0_rem_k1, P_collapse, GET, K0, REM, K1)
SCEN(c_get_k2_rem_k1, P_collapse, GET, K2, REM, K1)
SCEN(c_rem_k1_rem_k0, P_collapse, REM, K1, REM, K0)
SCEN(c_ins_rem_k0, P_collapse, INS, 0x0100000000000002ULL, REM, K0)
// growth 4 -> 16 and a competing sibling removal / reader
SCEN(g_ins5_rem1, P_full4, INS, 5, REM, 1)
SCEN(g_get3_ins5, P_full4, GET, 3, INS, 5)
SCEN(g_ins5_ins6, P_full4, INS, 5, INS, 6)
SCEN(g_ins5_ins5, P_full4, INS, 5, INS, 5)
// shrink 16 -> 4
SCEN(s_get2_rem5, P_min16, GET, 2, REM, 5)
SCEN(s_rem1_rem5, P_min16, REM, 1, REM, 5)
SCEN(s_rem3_rem3, P_min16, REM, 3, REM, 3)
// root leaf: leaf split, root replacement, root removal
SCEN(l_get_ins, P_leaf, GET, 0x0102030405060708ULL, INS, 0x0102030405060709ULL)
SCEN(l_get_rem, P_leaf, GET, 0x0102030405060708ULL, REM, 0x0102030405060708ULL)
SCEN(l_ins_ins_split, P_leaf, INS, 0x01020304FF060708ULL, INS, 0x0102030405060709ULL)
SCEN(l_rem_ins, P_leaf, REM, 0x0102030405060708ULL, INS, 0x0102030405060709ULL)     // removal of the root leaf while an insert splits it
SCEN(l_rem_rem, P_leaf, REM, 0x0102030405060708ULL, REM, 0x0102030405060708ULL)     // two removals of the only key
SCEN(l_ins_rem, P_leaf, INS, 0x0102030405060709ULL, REM, 0x0102030405060708ULL)     // split of the root leaf while it is removed
// prefix split above a reader / two-child node
SCEN(p_get_split, P_two, GET, 0x20, INS, 0x0100000000000000ULL)
SCEN(p_rem_split, P_two, REM, 0x10, INS, 0x0000000000010000ULL)
SCEN(p_get_rem_sib, P_two, GET, 0x20, REM, 0x10)
// key-prefix split of an inner node BELOW the root (cut in place, the node stays live) while another operation is between reading the parent's child
// pointer and locking that node; the keys are self-similar (zero bytes) so that the shortened prefix still matches at the stale depth (seed C03c)
static const std::uint64_t P_pfx[] = {0x0200000000000000ULL, 0x0100000000001000ULL, 0x0100000000002000ULL};   // root {01 -> C (prefix 00 00 00 00 00) {10, 20}, 02 -> leaf}
SCEN(p_ins_split_child, P_pfx, INS, 0x0100000000003000ULL, INS, 0x0100000700003000ULL)
SCEN(p_get_split_child, P_pfx, GET, 0x0100000000002000ULL, INS, 0x0100000700003000ULL)
SCEN(p_rem_split_child, P_pfx, REM, 0x0100000000001000ULL, INS, 0x0100000700003000ULL)
// an insert that splits the root's key prefix is restarted because another writer changes the node between its read lock and the upgrades
SCEN(p_split_ins, P_two, INS, 0x0000000000010000ULL, INS, 0x30)
SCEN(p_split_rem, P_two, INS, 0x0000000000010000ULL, REM, 0x10)
// a full inner node under a full non-root parent: both grow
SCEN(n_ins4_ins400, P_nested, INS, 4, INS, 0x400)
SCEN(n_get2_ins400, P_nested, GET, 2, INS, 0x400)
SCEN(n_rem3_ins400, P_nested, REM, 3, INS, 0x400)

// C04, three QSBR registrations, call-level schedule (no preemption needed): a reader keeps a value view while the remover exits with the
// request pending and a third thread (which never quiesced in this epoch) exits too.  The view must stay readable until the reader quiesces.
HARNESS(v_view_two_exits) {
  (void)in_u8();
  static unodb::detail::set_qsbr_per_thread_in_main_thread reg;                 // reader R
  std::unique_ptr<qsbr_per_thread> W = std::make_unique<qsbr_per_thread>();     // writer
  std::unique_ptr<qsbr_per_thread> T3 = std::make_unique<qsbr_per_thread>();    // third thread
  static db_t d;
  const std::uint64_t KA = 0x0102030405060708ULL, KB = 0x0102030405060709ULL;
  const std::uint8_t v1 = 0x41, v2 = 0x42;
  PROP(d.insert(KA, vv(&v1, 1)) && d.insert(KB, vv(&v2, 1)), "C04: prelude inserts succeed");
  unodb::this_thread().quiescent();                                             // R passes a quiescent state, then takes the view
  auto g = d.get(KA);
  PROP(g.has_value() && g->size() == 1, "C04: the reader finds the key");
  const std::uint8_t* view = reinterpret_cast<const std::uint8_t*>(g->begin().get());
  std::swap(qsbr_per_thread::current_thread_instance, W);                       // writer runs: remove, then exits without a quiescent state
  PROP(d.remove(KA), "C04: the writer removes the key");
  unodb::this_thread().qsbr_pause();
  std::swap(qsbr_per_thread::current_thread_instance, W);
  T3->qsbr_pause();                                                             // the third thread, which never quiesced in this epoch, exits too
  PROP(view[0] == 0x41, "C04: a value view stays readable and unchanged until the reader's next quiescent state, even if the remover and a third thread have exited");
  unodb::this_thread().quiescent(); unodb::this_thread().quiescent(); unodb::this_thread().quiescent();
  PROP(!d.get(KA).has_value() && d.get(KB).has_value(), "C04: final content");
  WITNESS();
}
