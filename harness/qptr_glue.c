/* ghost registry standing in for qsbr_per_thread::active_ptrs (debug builds only call these) */
#define GH_MAX 12
static ptr gh_reg[GH_MAX]; static uint64_t gh_n, gh_err;
void _ZN5unodb6detail13qsbr_ptr_base19register_active_ptrEPKv(ptr p) {
  if (p == 0) return;
  __CPROVER_assert(gh_n < GH_MAX, "ghost registry large enough");
  if (gh_n < GH_MAX) gh_reg[gh_n++] = p;
}
void _ZN5unodb6detail13qsbr_ptr_base21unregister_active_ptrEPKv(ptr p) {
  if (p == 0) return;
  for (uint64_t i = 0; i < GH_MAX; i++) if (i < gh_n && gh_reg[i] == p) { gh_reg[i] = gh_reg[gh_n - 1]; gh_n--; return; }
  gh_err++;
}
uint64_t gh_reg_count(void) { return gh_n; }
uint64_t gh_reg_mult(ptr p) { uint64_t c = 0; for (uint64_t i = 0; i < GH_MAX; i++) if (i < gh_n && gh_reg[i] == p) c++; return c; }
uint64_t gh_reg_errors(void) { return gh_err; }
