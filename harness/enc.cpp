// C11 / C12 / C15: key_encoder / key_decoder kernels, all inputs symbolic.
#include "verif.hpp"
#include <string_view>
#include "art_common.hpp"
#include "art_internal.hpp"
#include <cstring>
using namespace unodb;

static int kcmp(key_view a, key_view b) { return sgn(detail::compare(a, b)); }
static bool is_prefix(key_view a, key_view b) {  // a is a (not necessarily proper) prefix of b
  if (a.size() > b.size()) return false;
  for (std::size_t i = 0; i < a.size(); i++) if (a[i] != b[i]) return false;
  return true;
}
static void observe_key(key_view k) {
  OBSERVE(k.size());
  for (std::size_t i = 0; i < k.size() && i < 24; i++) OBSERVE(static_cast<std::uint8_t>(k[i]));
}

// ---------------------------------------------------------------- integers
#define INT_HARNESS(NAME, T)                                                              \
  HARNESS(h_##NAME) {                                                                     \
    T x = static_cast<T>(in_u64()), y = static_cast<T>(in_u64());                         \
    key_encoder e1, e2;                                                                   \
    e1.encode(x); e2.encode(y);                                                           \
    key_view k1 = e1.get_key_view(), k2 = e2.get_key_view();                              \
    PROP(k1.size() == sizeof(T) && k2.size() == sizeof(T), "C12/C15: " #NAME ": fixed width");        \
    int c = kcmp(k1, k2);                                                                 \
    PROP(c == (x < y ? -1 : (x > y ? 1 : 0)), "C11: " #NAME ": byte order of encodings = numeric order"); \
    PROP((x == y) == (k1.size() == k2.size() && is_prefix(k1, k2)), "C15: " #NAME ": byte-equal iff equal"); \
    T d; key_decoder dec{k1}; dec.decode(d);                                              \
    PROP(d == x, "C12: " #NAME ": decode(encode(x)) == x");                                       \
    observe_key(k1); OBSERVE(c); OBSERVE(static_cast<std::uint64_t>(d));                  \
    WITNESS();                                                                            \
  }
INT_HARNESS(i8, std::int8_t)
INT_HARNESS(i16, std::int16_t)
INT_HARNESS(i32, std::int32_t)
INT_HARNESS(i64, std::int64_t)
INT_HARNESS(u8, std::uint8_t)
INT_HARNESS(u16, std::uint16_t)
INT_HARNESS(u32, std::uint32_t)
INT_HARNESS(u64, std::uint64_t)

// ---------------------------------------------------------------- floating point
// documented total order: -inf < negative < -0 < +0 < positive < +inf < NaN, all NaNs equal
template <class F, class U> static int spec_fcmp(F x, F y) {
  bool nx = x != x, ny = y != y;
  if (nx || ny) return nx && ny ? 0 : (nx ? 1 : -1);
  if (x < y) return -1;
  if (x > y) return 1;
  U bx, by; std::memcpy(&bx, &x, sizeof x); std::memcpy(&by, &y, sizeof y);
  bool sx = (bx >> (sizeof(U) * 8 - 1)) != 0, sy = (by >> (sizeof(U) * 8 - 1)) != 0;
  return sx == sy ? 0 : (sx ? -1 : 1);
}
#define FP_HARNESS(NAME, F, U, IN, QNAN)                                                  \
  HARNESS(h_##NAME) {                                                                     \
    U bx = IN(), by = IN();                                                               \
    F x, y; std::memcpy(&x, &bx, sizeof x); std::memcpy(&y, &by, sizeof y);               \
    key_encoder e1, e2;                                                                   \
    e1.encode(x); e2.encode(y);                                                           \
    key_view k1 = e1.get_key_view(), k2 = e2.get_key_view();                              \
    PROP(k1.size() == sizeof(F) && k2.size() == sizeof(F), "C12/C15: " #NAME ": fixed width");        \
    int c = kcmp(k1, k2);                                                                 \
    int s = spec_fcmp<F, U>(x, y);                                                        \
    PROP(c == s, "C11: " #NAME ": byte order of encodings = documented total order");             \
    PROP((s == 0) == is_prefix(k1, k2), "C15: " #NAME ": byte-equal iff equal after NaN unification (-0 != +0)"); \
    F d; key_decoder dec{k1}; dec.decode(d);                                              \
    U bd; std::memcpy(&bd, &d, sizeof d);                                                 \
    if (x == x) PROP(bd == bx, "C12: " #NAME ": non-NaN round-trips bit for bit");                \
    else PROP(bd == QNAN, "C12: " #NAME ": NaN decodes to the canonical quiet NaN");              \
    observe_key(k1); OBSERVE(c); OBSERVE(bd);                                             \
    WITNESS();                                                                            \
  }
FP_HARNESS(f32, float, std::uint32_t, in_u32, 0x7fc00000U)
FP_HARNESS(f64, double, std::uint64_t, in_u64, 0x7ff8000000000000ULL)

// ---------------------------------------------------------------- text
#ifndef TEXTLEN
#define TEXTLEN 5
#endif
static std::size_t norm_len(const std::uint8_t* t, std::size_t n) {
  if (n > key_encoder::maxlen) n = key_encoder::maxlen;
  while (n > 0 && t[n - 1] == 0) n--;
  return n;
}
static int spec_textcmp(const std::uint8_t* a, std::size_t m1, const std::uint8_t* b, std::size_t m2, std::size_t cap) {
  for (std::size_t i = 0; i < cap; i++) {
    if (i >= m1 || i >= m2) break;
    if (a[i] != b[i]) return a[i] < b[i] ? -1 : 1;
  }
  return m1 == m2 ? 0 : (m1 < m2 ? -1 : 1);
}
// all pairs of texts of length <= TEXTLEN, every byte value, no interior zero bytes
HARNESS(h_text_pair) {
  std::uint8_t t1[TEXTLEN], t2[TEXTLEN];
  for (int i = 0; i < TEXTLEN; i++) { t1[i] = in_u8(); t2[i] = in_u8(); }
  std::size_t n1 = in_range(0, TEXTLEN), n2 = in_range(0, TEXTLEN);
  std::size_t m1 = norm_len(t1, n1), m2 = norm_len(t2, n2);
  for (std::size_t i = 0; i < TEXTLEN; i++) {
    if (i < m1) ASSUME(t1[i] != 0);
    if (i < m2) ASSUME(t2[i] != 0);
  }
  key_encoder e1, e2;
  e1.encode_text(std::span<const std::byte>(reinterpret_cast<const std::byte*>(t1), n1));
  e2.encode_text(std::string_view(reinterpret_cast<const char*>(t2), n2));      // second text through the string_view overload: both must agree
  key_view k1 = e1.get_key_view(), k2 = e2.get_key_view();
  PROP(k1.size() == m1 + 3 && k2.size() == m2 + 3, "C15: text: emits the normalised bytes plus a 3-byte terminator");
  for (std::size_t i = 0; i < TEXTLEN; i++)
    if (i < m1) PROP(static_cast<std::uint8_t>(k1[i]) == t1[i], "C11/C15: text: normalised bytes are copied verbatim");
  int spec = spec_textcmp(t1, m1, t2, m2, TEXTLEN);
  int c = kcmp(k1, k2);
  PROP(c == spec, "C11: text: byte order of encodings = byte order of the normalised texts");
  bool eq = k1.size() == k2.size() && is_prefix(k1, k2);
  PROP(eq == (spec == 0), "C15: text: byte-equal iff equal after normalisation");
  PROP(eq || (!is_prefix(k1, k2) && !is_prefix(k2, k1)), "C15: text: neither encoding is a proper prefix of the other");
  observe_key(k1); observe_key(k2); OBSERVE(c);
  WITNESS();
}

// ---------------------------------------------------------------- compound keys
// schema A: (u8, text<=TUPTEXT, i16): a variable-width component in the middle
#ifndef TUPTEXT
#define TUPTEXT 2
#endif
struct tupa { std::uint8_t a; std::uint8_t t[TUPTEXT]; std::size_t n; std::int16_t i; };
static void read_tupa(tupa& x) {
  x.a = in_u8();
  for (int i = 0; i < TUPTEXT; i++) x.t[i] = in_u8();
  x.n = in_range(0, TUPTEXT);
  std::size_t m = norm_len(x.t, x.n);
  for (std::size_t i = 0; i < TUPTEXT; i++) if (i < m) ASSUME(x.t[i] != 0);
  x.i = static_cast<std::int16_t>(in_u16());
}
static void enc_tupa(key_encoder& e, const tupa& x) {
  e.encode(x.a).encode_text(std::span<const std::byte>(reinterpret_cast<const std::byte*>(x.t), x.n)).encode(x.i);
}
HARNESS(h_tuple_text) {
  tupa x, y; read_tupa(x); read_tupa(y);
  key_encoder e1, e2; enc_tupa(e1, x); enc_tupa(e2, y);
  key_view k1 = e1.get_key_view(), k2 = e2.get_key_view();
  int spec = x.a != y.a ? (x.a < y.a ? -1 : 1) : 0;
  if (spec == 0) spec = spec_textcmp(x.t, norm_len(x.t, x.n), y.t, norm_len(y.t, y.n), TUPTEXT);
  if (spec == 0) spec = x.i != y.i ? (x.i < y.i ? -1 : 1) : 0;
  int c = kcmp(k1, k2);
  PROP(c == spec, "C11: tuple(u8,text,i16): order of encodings = lexicographic order of component tuples");
  bool eq = k1.size() == k2.size() && is_prefix(k1, k2);
  PROP(eq == (spec == 0), "C15: tuple(u8,text,i16): byte-equal iff components equal after normalisation");
  PROP(eq || (!is_prefix(k1, k2) && !is_prefix(k2, k1)), "C15: tuple with text in the middle: prefix-free");
  key_decoder d1{k1}; std::uint8_t a; d1.decode(a);
  PROP(a == x.a, "C12: tuple: first component decodes");
  std::size_t m = norm_len(x.t, x.n);
  key_decoder d2{k1.subspan(1 + m + 3)}; std::int16_t i; d2.decode(i);
  PROP(i == x.i, "C12: tuple: i16 after text decodes");
  observe_key(k1); OBSERVE(c);
  WITNESS();
}
// schema B: (i32, f64, u16): fixed widths only
HARNESS(h_tuple_fixed) {
  std::int32_t xi = static_cast<std::int32_t>(in_u32()), yi = static_cast<std::int32_t>(in_u32());
  std::uint64_t xb = in_u64(), yb = in_u64();
  std::uint16_t xu = in_u16(), yu = in_u16();
  double xd, yd; std::memcpy(&xd, &xb, 8); std::memcpy(&yd, &yb, 8);
  key_encoder e1, e2;
  e1.encode(xi).encode(xd).encode(xu); e2.encode(yi).encode(yd).encode(yu);
  key_view k1 = e1.get_key_view(), k2 = e2.get_key_view();
  PROP(k1.size() == 14 && k2.size() == 14, "C12/C15: tuple(i32,f64,u16): width is the sum of the component widths");
  int spec = xi != yi ? (xi < yi ? -1 : 1) : 0;
  if (spec == 0) spec = spec_fcmp<double, std::uint64_t>(xd, yd);
  if (spec == 0) spec = xu != yu ? (xu < yu ? -1 : 1) : 0;
  int c = kcmp(k1, k2);
  PROP(c == spec, "C11: tuple(i32,f64,u16): order of encodings = lexicographic order of component tuples");
  PROP((spec == 0) == is_prefix(k1, k2), "C15: tuple(i32,f64,u16): byte-equal iff components equal after normalisation");
  key_decoder d{k1}; std::int32_t i; double dd; std::uint16_t u; d.decode(i).decode(dd).decode(u);
  std::uint64_t bd; std::memcpy(&bd, &dd, 8);
  PROP(i == xi && u == xu, "C12: tuple(i32,f64,u16): integer components decode in order");
  if (xd == xd) PROP(bd == xb, "C12: tuple(i32,f64,u16): f64 in the middle decodes bit for bit");
  observe_key(k1); OBSERVE(c);
  WITNESS();
}

// schema C: every fixed-size component type, each one followed by another component, in two orders: the decoder must advance by
// exactly the component's size whatever the type (C12 "decoding the components in the order they were encoded")
HARNESS(h_decode_all) {
  const std::int8_t a = static_cast<std::int8_t>(in_u8()); const std::uint8_t b = in_u8();
  const std::int16_t c = static_cast<std::int16_t>(in_u16()); const std::uint16_t d = in_u16();
  const std::int32_t e = static_cast<std::int32_t>(in_u32()); const std::uint32_t f = in_u32();
  const std::int64_t g = static_cast<std::int64_t>(in_u64()); const std::uint64_t h = in_u64();
  const std::uint32_t fb = in_u32(); const std::uint64_t db = in_u64();
  float x; double y; std::memcpy(&x, &fb, 4); std::memcpy(&y, &db, 8);
  ASSUME(x == x && y == y);          // NaNs decode to the canonical NaN: covered by the per-type queries
  key_encoder enc;
  enc.encode(a).encode(b).encode(c).encode(d).encode(e).encode(f).encode(g).encode(h).encode(x).encode(y)
     .encode(y).encode(x).encode(h).encode(g).encode(f).encode(e).encode(d).encode(c).encode(b).encode(a).encode(a).encode(b);
  key_view k = enc.get_key_view();
  PROP(k.size() == 2 * (1 + 1 + 2 + 2 + 4 + 4 + 8 + 8 + 4 + 8) + 2, "C12: all types: size is the sum of the component sizes");
  std::int8_t a1, a2, a3; std::uint8_t b1, b2, b3; std::int16_t c1, c2; std::uint16_t d1, d2; std::int32_t e1, e2; std::uint32_t f1, f2;
  std::int64_t g1, g2; std::uint64_t h1, h2; float x1, x2; double y1, y2;
  key_decoder dec{k};
  dec.decode(a1).decode(b1).decode(c1).decode(d1).decode(e1).decode(f1).decode(g1).decode(h1).decode(x1).decode(y1)
     .decode(y2).decode(x2).decode(h2).decode(g2).decode(f2).decode(e2).decode(d2).decode(c2).decode(b2).decode(a2).decode(a3).decode(b3);
  PROP(a1 == a && a2 == a && a3 == a && b1 == b && b2 == b && b3 == b, "C12: all types: 8-bit components decode in order");
  PROP(c1 == c && c2 == c && d1 == d && d2 == d, "C12: all types: 16-bit components decode in order");
  PROP(e1 == e && e2 == e && f1 == f && f2 == f, "C12: all types: 32-bit components decode in order");
  PROP(g1 == g && g2 == g && h1 == h && h2 == h, "C12: all types: 64-bit components decode in order");
  std::uint32_t xb1, xb2; std::uint64_t yb1, yb2; std::memcpy(&xb1, &x1, 4); std::memcpy(&xb2, &x2, 4); std::memcpy(&yb1, &y1, 8); std::memcpy(&yb2, &y2, 8);
  PROP(xb1 == fb && xb2 == fb && yb1 == db && yb2 == db, "C12: all types: floating-point components decode bit for bit in order");
  OBSERVE(k.size()); OBSERVE(static_cast<std::uint8_t>(a1)); OBSERVE(h2);
  WITNESS();
}

// ---------------------------------------------------------------- reset / growth
#ifndef NCOMP
#define NCOMP 34
#endif
// NCOMP u64 components (NCOMP*8 > 256 crosses the internal buffer) compared with per-component fresh encoders;
// then reset() and re-encode a different sequence: must equal a fresh encoder's bytes.
HARNESS(h_growth) {
  static std::uint64_t v[NCOMP];
  key_encoder e;
  std::size_t cap0 = e.capacity();
  for (int i = 0; i < NCOMP; i++) { v[i] = in_u64(); e.encode(v[i]); }
  key_view k = e.get_key_view();
  PROP(k.size() == 8u * NCOMP, "C12: growth: size = sum of component sizes");
  PROP(8u * NCOMP <= cap0 || e.capacity() >= 8u * NCOMP, "C12: growth: capacity covers content");
  std::size_t probe = in_range(0, NCOMP - 1);
  key_encoder f; f.encode(v[probe]);
  key_view kf = f.get_key_view();
  for (int j = 0; j < 8; j++) PROP(k[probe * 8 + j] == kf[j], "C12: growth: every component equals a fresh encoder's bytes (buffer growth preserves content)");
  key_decoder dec{k.subspan(probe * 8)}; std::uint64_t d; dec.decode(d);
  PROP(d == v[probe], "C12: growth: component decodes after growth");
  // reuse after reset
  std::uint32_t w = in_u32(); std::int16_t s = static_cast<std::int16_t>(in_u16());
  e.reset().encode(w).encode(s);
  key_encoder g; g.encode(w).encode(s);
  key_view a = e.get_key_view(), b = g.get_key_view();
  PROP(a.size() == b.size() && a.size() == 6, "C12: reset: size as fresh");
  for (int j = 0; j < 6; j++) PROP(a[j] == b[j], "C12: reset: reused encoder yields the same bytes as a fresh one");
  OBSERVE(static_cast<std::uint8_t>(k[probe * 8])); OBSERVE(e.capacity());
  WITNESS();
}
