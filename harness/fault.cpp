// C08 (failed operations leave no trace) and C10 (shape, statistics and memory accounting are functions of the key set)
// DBKIND: 0 = db, 1 = mutex_db, 2 = olc_db (single registered thread)
#include "verif.hpp"
#ifndef DBKIND
#define DBKIND 0
#endif
#if DBKIND == 0
#include "art.hpp"
#elif DBKIND == 1
#include "mutex_art.hpp"
#else
#include "olc_art.hpp"
#include "qsbr.cpp"
#include "qsbr_ptr.cpp"
#endif
#include <new>
#include <stdexcept>
using namespace unodb;
#if DBKIND == 0
using db_t = unodb::db<std::uint64_t, unodb::value_view>;
#elif DBKIND == 1
using db_t = unodb::mutex_db<std::uint64_t, unodb::value_view>;
#else
using db_t = unodb::olc_db<std::uint64_t, unodb::value_view>;
#endif
static void olc_thread_init() {
#if DBKIND == 2
  static bool done = false;
  if (!done) { done = true; static unodb::detail::set_qsbr_per_thread_in_main_thread reg; }   // registers this (only) thread with QSBR, as the library does at start-up
#endif
}
static unodb::value_view vv(const std::uint8_t* b, std::size_t n) { return unodb::value_view{reinterpret_cast<const std::byte*>(b), n}; }

// ---------------------------------------------------------------- reference shape of the path-compressed radix tree of a sorted key list
#define MAXK 8
struct shape { std::uint64_t leaves, i4, i16, i48, i256, bytes; };
static unsigned lcp(std::uint64_t a, std::uint64_t b) {   // common leading bytes (a != b)
  unsigned n = 0;
  for (int s = 56; s >= 0; s -= 8) { if (((a >> s) & 0xff) != ((b >> s) & 0xff)) break; n++; }
  return n;
}
#if DBKIND == 2
static constexpr std::uint64_t HDR = 8;     // optimistic lock word (NDEBUG)
#else
static constexpr std::uint64_t HDR = 0;
#endif
// node sizes: header + 8 (prefix) + ... as fixed by the layout of the four classes (art.hpp static_asserts: 48/160/656/2064 without header)
#if DBKIND == 2
static constexpr std::uint64_t SZ4 = 48 + 8, SZ16 = 160 + 16, SZ48 = 656 + 16, SZ256 = 2064 + 8;   // lock word + alignment padding (olc_art.hpp static_asserts)
#else
static constexpr std::uint64_t SZ4 = 48 + HDR, SZ16 = 160 + HDR, SZ48 = 656 + HDR, SZ256 = 2064 + HDR;
#endif
#if DBKIND == 2
using leaf_layout = unodb::detail::basic_leaf<std::uint64_t, unodb::detail::olc_node_header>;
#else
using leaf_layout = unodb::detail::basic_leaf<std::uint64_t, unodb::detail::node_header>;
#endif
static std::uint64_t leaf_bytes(std::uint64_t vlen) { return sizeof(leaf_layout) - 1 + 8 + vlen; }   // struct with a 1-byte flexible tail, then key and value bytes
// keys sorted ascending, distinct; vlen[i] value lengths
static shape ref_shape(const std::uint64_t* k, const std::uint8_t* vlen, unsigned n) {
  shape s{n, 0, 0, 0, 0, 0};
  for (unsigned i = 0; i < n; i++) s.bytes += leaf_bytes(vlen[i]);
  unsigned d[MAXK];
  for (unsigned i = 0; i + 1 < n; i++) d[i] = lcp(k[i], k[i + 1]);
  for (unsigned i = 0; i + 1 < n; i++) {
    // i represents an inner node iff no j < i with d[j] == d[i] and all d in (j..i) >= d[i]
    bool rep = true;
    for (unsigned j = i; j-- > 0;) { if (d[j] < d[i]) break; if (d[j] == d[i]) { rep = false; break; } }
    if (!rep) continue;
    unsigned fan = 2;
    for (unsigned j = i + 1; j + 1 < n; j++) { if (d[j] < d[i]) break; if (d[j] == d[i]) fan++; }
    if (fan <= 4) { s.i4++; s.bytes += SZ4; } else if (fan <= 16) { s.i16++; s.bytes += SZ16; } else if (fan <= 48) { s.i48++; s.bytes += SZ48; } else { s.i256++; s.bytes += SZ256; }
  }
  return s;
}
struct stats { std::uint64_t mem, leaves, i4, i16, i48, i256, g4, g16, g48, g256, s4, s16, s48, s256, splits; };
static stats snap(const db_t& d) {
  stats t{};
#ifdef UNODB_DETAIL_WITH_STATS
  t.mem = d.get_current_memory_use();
  t.leaves = d.template get_node_count<node_type::LEAF>(); t.i4 = d.template get_node_count<node_type::I4>(); t.i16 = d.template get_node_count<node_type::I16>();
  t.i48 = d.template get_node_count<node_type::I48>(); t.i256 = d.template get_node_count<node_type::I256>();
  t.g4 = d.template get_growing_inode_count<node_type::I4>(); t.g16 = d.template get_growing_inode_count<node_type::I16>();
  t.g48 = d.template get_growing_inode_count<node_type::I48>(); t.g256 = d.template get_growing_inode_count<node_type::I256>();
  t.s4 = d.template get_shrinking_inode_count<node_type::I4>(); t.s16 = d.template get_shrinking_inode_count<node_type::I16>();
  t.s48 = d.template get_shrinking_inode_count<node_type::I48>(); t.s256 = d.template get_shrinking_inode_count<node_type::I256>();
  t.splits = d.get_key_prefix_splits();
#endif
  return t;
}
static bool same_current(const stats& a, const stats& b) { return a.mem == b.mem && a.leaves == b.leaves && a.i4 == b.i4 && a.i16 == b.i16 && a.i48 == b.i48 && a.i256 == b.i256; }
static bool same_all(const stats& a, const stats& b) {
  return same_current(a, b) && a.g4 == b.g4 && a.g16 == b.g16 && a.g48 == b.g48 && a.g256 == b.g256 && a.s4 == b.s4 && a.s16 == b.s16 && a.s48 == b.s48 && a.s256 == b.s256 && a.splits == b.splits;
}
static void check_shape(const stats& t, const shape& s) {
  PROP(t.leaves == s.leaves, "C10: reported number of leaves equals the number of entries");
  PROP(t.i4 == s.i4 && t.i16 == s.i16 && t.i48 == s.i48 && t.i256 == s.i256, "C10: reported inner nodes per size class are those of the path-compressed radix tree of the keys, each in the smallest class that fits");
  PROP(t.mem == s.bytes, "C10: reported memory use is the summed size of exactly those nodes");
}
static std::uint64_t deferred_allocs() {
#if DBKIND == 2
  return 0;   // see qsbr stub accounting in the olc harness
#else
  return 0;
#endif
}

// ---------------------------------------------------------------- catalogue
#define B 0x0102030405060700ULL
static const std::uint64_t K_leaf[] = {B | 0x08};
static const std::uint64_t K_i4_3[] = {B | 0x10, B | 0x20, B | 0x30};
static const std::uint64_t K_i4_4[] = {B | 0x10, B | 0x20, B | 0x30, B | 0x40};
static const std::uint64_t K_i16_5[] = {B | 0x10, B | 0x20, B | 0x30, B | 0x40, B | 0x50};
static const std::uint64_t K_2lvl[] = {0x0100, 0x0101, 0x0200, 0x0201, 0x0202};
static const std::uint64_t K_collapse[] = {0x01000000000000AAULL, 0x0200000000000001ULL, 0x0200000000000002ULL};
// an inner node BELOW the root with a long key prefix (11 22 33 44 55 66) whose bytes all differ: prefix splits at depth > 0
static const std::uint64_t K_deep[] = {0x0111223344556601ULL, 0x0111223344556602ULL, 0x0200000000000000ULL};

static bool get1(db_t& d, std::uint64_t k, std::uint8_t& out) {
  auto r = d.get(k);
#if DBKIND == 1
  if (!r.first.has_value()) return false; out = r.first->size() ? static_cast<std::uint8_t>((*r.first)[0]) : 0; return true;
#else
  if (!r.has_value()) return false; out = r->size() ? static_cast<std::uint8_t>(r->begin()[0]) : 0; return true;
#endif
}
#ifdef FAULT_FIXED
extern "C" std::uint64_t verif_fixed_k(void) noexcept;     // fault position fixed by the generated entry wrapper <case>__f<N> (the OLC index does not fold with a symbolic one)
#define FAULT_INDEX(hi) ((void)in_u8(), verif_fixed_k())
#else
#define FAULT_INDEX(hi) in_range(0, hi)
#endif
// C14 on the fault paths: after an operation threw, every later operation on every key completes (a node or root lock left behind makes these spin past the loop bound)
template <unsigned N> static void sweep_after_throw(db_t& d, const std::uint64_t (&keys)[N]) {
#if DBKIND == 2
  for (unsigned i = 0; i < N; i++) {
    const std::uint64_t p = keys[i] ^ 0x80; bool clash = false;
    for (unsigned j = 0; j < N; j++) if (keys[j] == p) clash = true;
    if (clash) continue;
    const std::uint8_t v = 7;
    PROP(d.insert(p, vv(&v, 1)), "C14: after an operation threw, a later insert next to every key completes and succeeds (no lock left held)");
    PROP(d.remove(p), "C14: after an operation threw, a later remove next to every key completes and succeeds (no lock left held)");
  }
#else
  (void)d; (void)keys;
#endif
}
template <unsigned N> static void build(db_t& d, const std::uint64_t (&keys)[N]) {
  olc_thread_init();
  for (unsigned i = 0; i < N; i++) { std::uint8_t v = static_cast<std::uint8_t>(i + 1); bool r = d.insert(keys[i], vv(&v, 1)); PROP(r, "C08: prelude insert succeeds"); }
}
template <unsigned N> static void entries_intact(db_t& d, const std::uint64_t (&keys)[N], bool removed, std::uint64_t rk) {
  for (unsigned i = 0; i < N; i++) {
    std::uint8_t b = 0; const bool f = get1(d, keys[i], b);
    const bool gone = removed && keys[i] == rk;
    PROP(f == !gone && (!f || b == static_cast<std::uint8_t>(i + 1)), "C08: same entries and values");
  }
}
// sorted union / difference helpers for the reference shape (keys ascending)
template <unsigned N> static unsigned with_key(const std::uint64_t (&keys)[N], std::uint64_t k, bool add, std::uint64_t* out, std::uint8_t* vl) {
  unsigned n = 0; bool placed = !add;
  for (unsigned i = 0; i < N; i++) {
    if (!placed && k < keys[i]) { out[n] = k; vl[n] = 1; n++; placed = true; }
    if (keys[i] == k) { placed = true; if (!add) continue; }
    out[n] = keys[i]; vl[n] = 1; n++;
  }
  if (!placed) { out[n] = k; vl[n] = 1; n++; }
  return n;
}

// one insert with the k-th allocation failing (k symbolic, 0 = no fault), then a retry without fault
template <unsigned N, bool RETRY, bool FAULTS = true> static void fault_insert(const std::uint64_t (&keys)[N], const std::uint64_t* ck, unsigned nck) {
  static db_t d;
  build(d, keys);
  stats s0 = snap(d);
  { std::uint64_t r0[MAXK]; std::uint8_t v0[MAXK]; const unsigned n0 = with_key(keys, 0, false, r0, v0); check_shape(s0, ref_shape(r0, v0, n0)); }
  const std::uint64_t live0 = verif_live_allocs();
  std::uint64_t k = in_u64(); const std::uint8_t v = in_u8();
  if (ck != nullptr) { k = ck[0]; }
  bool present = false; for (unsigned i = 0; i < N; i++) if (keys[i] == k) present = true;
  const std::uint64_t fail = FAULTS ? FAULT_INDEX(3) : 0;
  verif_fail_alloc_at(fail);
  bool threw = false, threw_other = false, r = false;
  try { r = d.insert(k, vv(&v, 1)); } catch (const std::bad_alloc&) { threw = true; } catch (...) { threw_other = true; }
  const std::uint64_t used = verif_alloc_count();
  verif_fail_alloc_at(0);
  PROP(!threw_other, "C08: an injected allocation failure surfaces as std::bad_alloc");
  PROP(threw == (fail != 0 && fail <= used), "C08: the operation throws iff one of its allocations failed");
  if (threw) {
    const stats s1 = snap(d);
    PROP(same_all(s0, s1), "C08: node counts, memory accounting and counters are unchanged after a failed insert");
    PROP(verif_live_allocs() == live0, "C08: nothing leaked by a failed insert");
    entries_intact(d, keys, false, 0);
    std::uint8_t b = 0; PROP(get1(d, k, b) == present, "C08: a failed insert did not add its key");
    sweep_after_throw(d, keys);
    PROP(same_current(s0, snap(d)) && verif_live_allocs() == live0, "C08: the sweep after a failed insert leaves node counts and allocations as before");
    s0 = snap(d);      // the sweep's probes may have grown and shrunk a node: later counter comparisons start here
    if constexpr (!RETRY) { OBSERVE(threw); WITNESS(); return; }
    r = d.insert(k, vv(&v, 1));    // retry without the fault
  }
  PROP(r == !present, "C08: without the fault the insert has its normal result");
  std::uint8_t b = 0; const bool f = get1(d, k, b);
  PROP(f && (present || b == v), "C08: after the (retried) insert the key is present with its value");
  entries_intact(d, keys, false, 0);
  // C10 after the step
  std::uint64_t rk[MAXK]; std::uint8_t rv[MAXK]; const unsigned rn = with_key(keys, k, true, rk, rv);
  const stats s2 = snap(d);
  check_shape(s2, ref_shape(rk, rv, rn));
  PROP(s2.g4 >= s0.g4 && s2.g16 >= s0.g16 && s2.g48 >= s0.g48 && s2.g256 >= s0.g256 && s2.s4 == s0.s4 && s2.s16 == s0.s16 && s2.s48 == s0.s48 && s2.s256 == s0.s256,
       "C10: growth counters never decrease and shrink counters do not move on insert");
  const bool structural = (s2.i4 + s2.i16 + s2.i48 + s2.i256 != s0.i4 + s0.i16 + s0.i48 + s0.i256) || s2.i4 != s0.i4 || s2.i16 != s0.i16;
  PROP((s2.g4 + s2.g16 + s2.g48 + s2.g256) - (s0.g4 + s0.g16 + s0.g48 + s0.g256) == (structural ? 1u : 0u), "C10: a growth counter moves exactly when an inner node is created or replaced by a larger class");
  PROP(verif_live_allocs() == live0 + (s2.leaves + s2.i4 + s2.i16 + s2.i48 + s2.i256) - (s0.leaves + s0.i4 + s0.i16 + s0.i48 + s0.i256), "C10: blocks held from the allocator match the reported nodes");
  OBSERVE(threw); OBSERVE(r); OBSERVE(s2.mem);
  WITNESS();
}
template <unsigned N, bool RETRY, bool FAULTS = true> static void fault_remove(const std::uint64_t (&keys)[N], const std::uint64_t* ck, unsigned nck) {
  static db_t d;
  build(d, keys);
  stats s0 = snap(d);
  const std::uint64_t live0 = verif_live_allocs();
  std::uint64_t k = in_u64();
  if (ck != nullptr) { k = ck[0]; }
  bool present = false; for (unsigned i = 0; i < N; i++) if (keys[i] == k) present = true;
  const std::uint64_t fail = FAULTS ? FAULT_INDEX(2) : 0;
  verif_fail_alloc_at(fail);
  bool threw = false, threw_other = false, r = false;
  try { r = d.remove(k); } catch (const std::bad_alloc&) { threw = true; } catch (...) { threw_other = true; }
  const std::uint64_t used = verif_alloc_count();
  verif_fail_alloc_at(0);
  PROP(!threw_other, "C08: an injected allocation failure surfaces as std::bad_alloc");
  PROP(threw == (fail != 0 && fail <= used), "C08: the operation throws iff one of its allocations failed");
  if (threw) {
    PROP(same_all(s0, snap(d)), "C08: node counts, memory accounting and counters are unchanged after a failed remove");
    PROP(verif_live_allocs() == live0, "C08: nothing leaked by a failed remove");
    entries_intact(d, keys, false, 0);
    sweep_after_throw(d, keys);
    s0 = snap(d);
    if constexpr (!RETRY) { OBSERVE(threw); WITNESS(); return; }
    r = d.remove(k);
  }
  PROP(r == present, "C08: without the fault the remove has its normal result");
  entries_intact(d, keys, r, k);
  std::uint64_t rk[MAXK]; std::uint8_t rv[MAXK]; const unsigned rn = with_key(keys, k, false, rk, rv);
  const stats s2 = snap(d);
  check_shape(s2, ref_shape(rk, rv, rn));
  PROP(s2.s4 >= s0.s4 && s2.s16 >= s0.s16 && s2.s48 >= s0.s48 && s2.s256 >= s0.s256 && s2.g4 == s0.g4 && s2.g16 == s0.g16 && s2.g48 == s0.g48 && s2.g256 == s0.g256,
       "C10: shrink counters never decrease and growth counters do not move on remove");
  const bool structural = (s2.i4 + s2.i16 + s2.i48 + s2.i256 != s0.i4 + s0.i16 + s0.i48 + s0.i256) || s2.i4 != s0.i4 || s2.i16 != s0.i16;
  PROP((s2.s4 + s2.s16 + s2.s48 + s2.s256) - (s0.s4 + s0.s16 + s0.s48 + s0.s256) == (structural ? 1u : 0u), "C10: a shrink counter moves exactly when an inner node is dissolved or replaced by a smaller class");
  PROP(verif_live_allocs() + deferred_allocs() == live0 - (r ? ((s0.leaves + s0.i4 + s0.i16 + s0.i48 + s0.i256) - (s2.leaves + s2.i4 + s2.i16 + s2.i48 + s2.i256)) : 0), "C10: blocks held from the allocator match the reported nodes");
  OBSERVE(threw); OBSERVE(r); OBSERVE(s2.mem);
  WITNESS();
}
// symbolic key, symbolic fault position, no retry
#define FC(name) \
  HARNESS(fins_##name) { fault_insert<sizeof(K_##name) / 8, false>(K_##name, nullptr, 0); } \
  HARNESS(frem_##name) { fault_remove<sizeof(K_##name) / 8, false>(K_##name, nullptr, 0); }
FC(leaf) FC(i4_3) FC(i4_4) FC(i16_5) FC(2lvl) FC(collapse) FC(deep)
// symbolic key, no fault: statistics / shape after one operation (C10)
#define SC10(name) \
  HARNESS(sins_##name) { fault_insert<sizeof(K_##name) / 8, false, false>(K_##name, nullptr, 0); } \
  HARNESS(srem_##name) { fault_remove<sizeof(K_##name) / 8, false, false>(K_##name, nullptr, 0); }
SC10(leaf) SC10(i4_3) SC10(i4_4) SC10(i16_5) SC10(2lvl) SC10(collapse) SC10(deep)
// concrete keys, one per structural case (selected symbolically), symbolic fault position, WITH retry
static const std::uint64_t C_leaf[] = {B | 0x08, B | 0x09, 0xFF02030405060708ULL, 0x0102FF0405060708ULL};                       // duplicate, last-byte split, first-byte split, mid split
static const std::uint64_t C_i4_3[] = {B | 0x20, B | 0x25, B | 0x05, B | 0x35, 0x0102030405FF0700ULL, 0xFF02030405060700ULL};     // duplicate, add mid/front/back, prefix split mid / at byte 0
static const std::uint64_t C_i4_4[] = {B | 0x25, B | 0x45, 0x01020304FF060700ULL};                                                // grow I4->I16, prefix split
static const std::uint64_t C_i16_5[] = {B | 0x10, B | 0x50, B | 0x30, B | 0x60};                                                  // removes that shrink I16->I4; absent
static const std::uint64_t C_2lvl[] = {0x0100, 0x0202, 0x0300, 0x0102, 0x010000, 0x0203};
static const std::uint64_t C_deep[] = {0x0111229900000000ULL, 0x0111223344559900ULL, 0x0199000000000000ULL, 0x0111223344556603ULL, 0x0111223344556601ULL, 0x0200000000000000ULL};   // split after 2 / 5 / 0 prefix bytes, add, duplicates / removes
static const std::uint64_t C_collapse[] = {0x01000000000000AAULL, 0x0200000000000001ULL, 0x0300000000000000ULL, 0x02000000000000FFULL};
template <unsigned N, unsigned I, unsigned M> static void rins(const std::uint64_t (&keys)[N], const std::uint64_t (&ck)[M]) { if constexpr (I < M) fault_insert<N, true>(keys, &ck[I], 1); else { (void)in_u8(); WITNESS(); } }
template <unsigned N, unsigned I, unsigned M> static void rrem(const std::uint64_t (&keys)[N], const std::uint64_t (&ck)[M]) { if constexpr (I < M) fault_remove<N, true>(keys, &ck[I], 1); else { (void)in_u8(); WITNESS(); } }
#define FR1(name, I) \
  HARNESS(rins_##name##_##I) { rins<sizeof(K_##name) / 8, I>(K_##name, C_##name); } \
  HARNESS(rrem_##name##_##I) { rrem<sizeof(K_##name) / 8, I>(K_##name, C_##name); }
#define FR(name) FR1(name, 0) FR1(name, 1) FR1(name, 2) FR1(name, 3) FR1(name, 4) FR1(name, 5)
FR(leaf) FR(i4_3) FR(i4_4) FR(i16_5) FR(2lvl) FR(collapse) FR(deep)

// over-long value: length error before anything is allocated
template <bool PRESENT, int SEL> static void too_long() {
  static db_t d;
  build(d, K_i4_3);
  const stats s0 = snap(d);
  const std::uint64_t live0 = verif_live_allocs();
  const std::uint64_t k = PRESENT ? K_i4_3[1] : (B | 0x77);
  (void)in_u8();
  constexpr int sel = SEL;
  const std::uint64_t n = sel == 0 ? 0x100000000ULL : (sel == 1 ? 0x100000005ULL : ~0ULL);
  static const std::uint8_t dummy = 0;
  bool le = false, other = false, r = false;
  try { r = d.insert(k, unodb::value_view{reinterpret_cast<const std::byte*>(&dummy), static_cast<std::size_t>(n)}); } catch (const std::length_error&) { le = true; } catch (...) { other = true; }
  bool present = false; for (unsigned i = 0; i < 3; i++) if (K_i4_3[i] == k) present = true;
  PROP(!other, "C08: an over-long value is rejected with std::length_error");
  PROP(le || (present && !r), "C08: an over-long value for an absent key throws; for a present key the duplicate is reported");
  PROP(same_all(s0, snap(d)) && verif_live_allocs() == live0, "C08: a rejected insert leaves statistics and allocations unchanged");
  entries_intact(d, K_i4_3, false, 0);
  OBSERVE(le);
  WITNESS();
}
HARNESS(h_too_long_absent_0) { too_long<false, 0>(); }
HARNESS(h_too_long_absent_1) { too_long<false, 1>(); }
HARNESS(h_too_long_absent_2) { too_long<false, 2>(); }
HARNESS(h_too_long_present) { too_long<true, 0>(); }

static bool counters_kept(const stats& a, const stats& b) {   // growth / shrink / prefix-split counters of b are not below those of a
  return b.g4 >= a.g4 && b.g16 >= a.g16 && b.g48 >= a.g48 && b.g256 >= a.g256 && b.s4 >= a.s4 && b.s16 >= a.s16 && b.s48 >= a.s48 && b.s256 >= a.s256 && b.splits >= a.splits;
}
// history independence and emptiness: insert(k) then remove(k) restores all current-state getters; clear() zeroes them
template <unsigned N> static void roundtrip(const std::uint64_t (&keys)[N]) {
  static db_t d;
  build(d, keys);
  const stats s0 = snap(d);
  const std::uint64_t live0 = verif_live_allocs();
  const std::uint64_t k = in_u64(); const std::uint8_t v = in_u8();
  bool present = false; for (unsigned i = 0; i < N; i++) if (keys[i] == k) present = true;
  ASSUME(!present);
  PROP(d.insert(k, vv(&v, 1)), "C10: insert of an absent key succeeds");
  PROP(d.remove(k), "C10: remove of the just inserted key succeeds");
  PROP(same_current(s0, snap(d)), "C10: insert(k); remove(k) restores node counts and memory use (history independence)");
  PROP(verif_live_allocs() == live0, "C10: ... and the blocks held from the allocator");
  entries_intact(d, keys, false, 0);
  WITNESS();
}
HARNESS(rt_leaf) { roundtrip(K_leaf); }
HARNESS(rt_i4_3) { roundtrip(K_i4_3); }
HARNESS(rt_i4_4) { roundtrip(K_i4_4); }
HARNESS(rt_2lvl) { roundtrip(K_2lvl); }
template <unsigned N, bool EXTRA> static void clear_all(const std::uint64_t (&keys)[N]) {
  static db_t d;
  const std::uint64_t live00 = verif_live_allocs();
  build(d, keys);
  (void)in_u8();
  if constexpr (EXTRA) { std::uint8_t v = 9; (void)d.insert(0xFFEEDDCCBBAA9988ULL, vv(&v, 1)); }
  const stats sb = snap(d);
  d.clear();
  const stats s = snap(d);
  PROP(counters_kept(sb, s), "C10: growth, shrink and prefix-split counters never decrease - clear() dissolves nodes but is not a statistics reset");
  PROP(s.mem == 0 && s.leaves == 0 && s.i4 == 0 && s.i16 == 0 && s.i48 == 0 && s.i256 == 0, "C10: a cleared index reports no nodes and no memory");
  PROP(d.empty(), "C10: a cleared index is empty");
  PROP(verif_live_allocs() == live00, "C10: clear() returns every block to the allocator");
  WITNESS();
}
HARNESS(clr_i4_3) { clear_all<3, false>(K_i4_3); }
HARNESS(clr_i4_3x) { clear_all<3, true>(K_i4_3); }
HARNESS(clr_i16_5) { clear_all<5, true>(K_i16_5); }
HARNESS(clr_2lvl) { clear_all<5, true>(K_2lvl); }

// larger size classes with a hole left by a removal, then clear(): everything must be returned (concrete trees)
template <unsigned N, unsigned DEL> static void clear_big() {
  static db_t d;
  (void)in_u8();
  const std::uint64_t live00 = verif_live_allocs();
  for (unsigned i = 0; i < N; i++) { std::uint8_t v = static_cast<std::uint8_t>(i); bool r = d.insert(B | (i * 3 + 1), vv(&v, 1)); PROP(r, "C10: prelude insert succeeds"); }
  PROP(d.remove(B | (DEL * 3 + 1)), "C10: remove of a present key succeeds");
  { std::uint64_t ks[MAXK]; std::uint8_t vl[MAXK]; (void)ks; (void)vl; }
  const stats s1 = snap(d);
  PROP(s1.leaves == N - 1, "C10: reported number of leaves equals the number of entries");
  PROP(verif_live_allocs() == live00 + (N - 1) + 1, "C10: blocks held from the allocator match the reported nodes");
  d.clear();
  const stats s = snap(d);
  PROP(counters_kept(s1, s), "C10: growth, shrink and prefix-split counters never decrease - clear() dissolves nodes but is not a statistics reset");
  PROP(s.mem == 0 && s.leaves == 0 && s.i4 == 0 && s.i16 == 0 && s.i48 == 0 && s.i256 == 0, "C10: a cleared index reports no nodes and no memory");
  PROP(verif_live_allocs() == live00, "C10: clear() returns every block to the allocator");
  WITNESS();
}
HARNESS(clr_i48_hole) { clear_big<20, 3>(); }
HARNESS(clr_i48_hole_last) { clear_big<18, 17>(); }
HARNESS(clr_i256_hole) { clear_big<52, 7>(); }
