// C17 (registry side): the REAL per-thread registry behind qsbr_ptr in assertion-enabled builds - qsbr_ptr_base::register_active_ptr /
// unregister_active_ptr (qsbr_ptr.cpp) -> qsbr_per_thread::register_active_ptr / unregister_active_ptr (qsbr.cpp, a std::unordered_multiset) - under
// symbolic sequences of wrapper operations.  After every step the registry must hold each address exactly as often as live wrappers hold it:
// that is what quiescent()/qsbr_pause()/qsbr_resume() test for emptiness.  (The other C17 queries replace the registry by a ghost.)
#include "verif.hpp"
#include <algorithm>
#include <array>
#include <atomic>
#include <cstring>
#include <iostream>
#include <memory>
#include <optional>
#include <span>
#include <sstream>
#include <thread>
#include <mutex>
#include <type_traits>
#include <vector>
#include <functional>
#include <unordered_set>
#include <new>
#include <cassert>
#define private public
#include "qsbr.hpp"
#include "qsbr_ptr.hpp"
#include "qsbr.cpp"
#include "qsbr_ptr.cpp"
#undef private
using namespace unodb;
using W = qsbr_ptr<std::uint8_t>;
#ifndef STEPS
#define STEPS 3
#endif
#define NSLOT 3
#define BUFSZ 3
static std::uint8_t buf[BUFSZ];
struct slot { alignas(W) unsigned char mem[sizeof(W)]; bool alive; long off; /* -1 = null */
  W& w() { return *std::launder(reinterpret_cast<W*>(mem)); } };
static void check_all(slot (&s)[NSLOT]) {
#ifndef NDEBUG
  auto& reg = unodb::this_thread().active_ptrs;
  std::uint64_t live = 0;
  for (int i = 0; i < NSLOT; i++) if (s[i].alive && s[i].off >= 0) {
    live++;
    std::uint64_t same = 0; for (int j = 0; j < NSLOT; j++) if (s[j].alive && s[j].off == s[i].off) same++;
    PROP(reg.count(buf + s[i].off) == same, "C17: the real registry holds each address exactly as often as live wrappers hold it");
  }
  PROP(reg.size() == live, "C17: the real registry's size is the number of live non-null wrappers");
  PROP(reg.empty() == (live == 0), "C17: the registry is empty - quiescent state, pause and resume are accepted - exactly when no non-null wrapper is alive");
#endif
}
HARNESS(h_qreg_seq) {
  static unodb::detail::set_qsbr_per_thread_in_main_thread reg;
  slot s[NSLOT] = {};
  for (auto& x : s) { x.alive = false; x.off = -1; }
  // concrete prelude (a fully symbolic 3-step sequence did not fit: 2 steps already cost 31 M SAT variables / 9 min): two wrappers on one address, a third elsewhere
  new (s[0].mem) W(buf + 0); s[0].alive = true; s[0].off = 0;
  new (s[1].mem) W(s[0].w()); s[1].alive = true; s[1].off = 0;
  new (s[2].mem) W(buf + 1); s[2].alive = true; s[2].off = 1;
  check_all(s);
  for (int step = 0; step < STEPS; step++) {
    const unsigned op = static_cast<unsigned>(in_range(0, 6));
    const unsigned a = static_cast<unsigned>(in_range(0, NSLOT - 1)), c = static_cast<unsigned>(in_range(0, NSLOT - 1));
    slot& x = s[a]; slot& y = s[c];
    switch (op) {
      case 0: if (!x.alive) { const long o = static_cast<long>(in_range(0, BUFSZ - 1)); new (x.mem) W(buf + o); x.alive = true; x.off = o; } break;
      case 1: if (!x.alive && y.alive && a != c) { new (x.mem) W(y.w()); x.alive = true; x.off = y.off; } break;                       // copy: a second wrapper on the same address
      case 2: if (x.alive && y.alive && a != c) { x.w() = y.w(); x.off = y.off; } break;                                                // copy assign
      case 3: if (x.alive && y.alive && a != c) { x.w() = std::move(y.w()); x.off = y.off; y.off = -1; } break;                         // move assign
      case 4: if (x.alive && x.off >= 0 && x.off + 1 < BUFSZ) { ++x.w(); x.off++; } break;
      case 5: if (x.alive && x.off > 0) { --x.w(); x.off--; } break;
      case 6: if (x.alive) { x.w().~W(); x.alive = false; x.off = -1; } break;
    }
    check_all(s);
    OBSERVE(op);
  }
  for (auto& x : s) if (x.alive) { x.w().~W(); x.alive = false; x.off = -1; }
#ifndef NDEBUG
  PROP(unodb::this_thread().active_ptrs.empty(), "C17: destroying every wrapper empties the real registry");
#endif
  WITNESS();
}
