// C05 / C06: scripted programs over 3-4 simulated QSBR threads (each its own qsbr_per_thread), real qsbr.hpp/qsbr.cpp.
// One call (thread A's) runs with a preemption point before every atomic access; at the chosen one the other threads run
// a short script of complete calls (own sequentialisation, preemption bound 1).
// Every free performed by QSBR is intercepted (entry hook on qsbr::deallocate) and checked against ghost bookkeeping.
#include "verif.hpp"
#include <algorithm>
#include <array>
#include <atomic>
#include <cstring>
#include <iostream>
#include <memory>
#include <optional>
#include <sstream>
#include <thread>
#include <mutex>
#include <vector>
#include <system_error>
#include <functional>
#include <unordered_set>
#include <iomanip>
#include <string>
#include <string_view>
#include <cstdlib>
#include <cerrno>
#include <new>
#include <cassert>
#define private public
#include "qsbr.hpp"
#include "qsbr.cpp"
#undef private
using namespace unodb;
#ifndef NT
#define NT 4
#endif
#ifndef STEPS
#define STEPS 4
#endif
#define MAXOBJ 8
extern "C" std::uint64_t verif_fixed_k(void) noexcept;
struct ghost_obj { void* p; unsigned waiting; unsigned freed; };     // waiting: bit t set = thread t was registered at retire time and has not quiesced/paused since
static ghost_obj objs[MAXOBJ]; static unsigned nobj;
static unsigned early_free, unknown_free;
extern "C" void verif_on_free(void* p) noexcept {      // called at the entry of qsbr::deallocate(void*)
  bool found = false;
  for (unsigned i = 0; i < MAXOBJ; i++) if (i < nobj && objs[i].p == p) { found = true; if (objs[i].waiting != 0) early_free++; objs[i].freed++; }
  if (!found) unknown_free++;
}
static qsbr_per_thread* T[NT]; static bool active[NT];
static bool busy[NT];   // inside a quiescent()/pause call: holds no references and cannot obtain one to an object retired meanwhile
static void passed(unsigned t) { for (unsigned i = 0; i < MAXOBJ; i++) if (i < nobj) objs[i].waiting &= ~(1u << t); }   // t passes a quiescent state / leaves
static unsigned nactive() { unsigned n = 0; for (unsigned t = 0; t < NT; t++) if (active[t]) n++; return n; }
static void check_now() {
  PROP(early_free == 0, "C05: no deferred deallocation runs while another thread registered at request time has yet to quiesce, pause or exit");
  PROP(unknown_free == 0, "C06: QSBR frees only pointers that were handed to it");
  for (unsigned i = 0; i < MAXOBJ; i++) if (i < nobj) PROP(objs[i].freed <= 1, "C06: a deferred deallocation never runs twice");
  PROP(qsbr_state::get_thread_count(qsbr::instance().get_state()) == nactive(), "C06: the reported registered-thread count equals started-or-resumed minus paused-or-exited threads");
}
static bool g_preempting;
static void act(unsigned t, unsigned a) {
  if (a > 3) return;
  qsbr_per_thread& th = *T[t];
  if (a == 0 && active[t]) { passed(t); busy[t] = true; th.quiescent(); busy[t] = false; }
  else if (a == 1 && active[t] && nobj < MAXOBJ) {
    void* p = detail::allocate_aligned(8);
    unsigned w = 0; for (unsigned u = 0; u < NT; u++) if (u != t && active[u] && !busy[u]) w |= 1u << u;
    objs[nobj].p = p; objs[nobj].waiting = w; objs[nobj].freed = 0; nobj++;
#ifdef NDEBUG
    th.on_next_epoch_deallocate(p);
#else
    th.on_next_epoch_deallocate(p, {});   // assertion-enabled builds take a debug callback; none is installed
#endif
  }
  else if (a == 2 && active[t]) { passed(t); busy[t] = true; th.qsbr_pause(); busy[t] = false; active[t] = false; }
  else if (a == 3 && !active[t]) {
    if (g_preempting) {
      // register_thread() spins while an epoch change is in progress (threads-in-previous-epoch == 0 with threads registered).  If the
      // preempted thread is the one changing the epoch, the schedule "the resume completes here" does not exist - the resuming thread
      // waits until the preempted one continues, which is the schedule with a later preemption point.  Such a run ends here (reached).
      const auto st = qsbr::instance().get_state();
      if (qsbr_state::get_threads_in_previous_epoch(st) == 0 && qsbr_state::get_thread_count(st) > 0) { WITNESS(); ASSUME(false); }
    }
    th.qsbr_resume(); active[t] = true;
  }
}
struct call { unsigned t, a; };       // a: 0 quiescent, 1 retire a fresh object, 2 pause (= exit), 3 resume
static const call* g_script; static unsigned g_nscript; static bool g_fired, g_fired_after;
extern "C" void verif_interfere(void) { g_preempting = !g_fired_after; g_fired = true; for (unsigned i = 0; i < g_nscript; i++) { act(g_script[i].t, g_script[i].a); } g_preempting = false; }
template <unsigned NP, unsigned NI, unsigned NS> static void scenario(unsigned nthreads, const call (&prefix)[NP], call A, const call (&interf)[NI], const call (&suffix)[NS], unsigned kmax, bool three_rounds) {
  for (unsigned t = 0; t < NT; t++) { active[t] = false; T[t] = nullptr; }
  for (unsigned t = 0; t < nthreads; t++) { T[t] = new qsbr_per_thread(); active[t] = true; }
  check_now();
  for (unsigned i = 0; i < NP; i++) { act(prefix[i].t, prefix[i].a); check_now(); }
  g_script = interf; g_nscript = NI; g_fired = false; g_fired_after = false;
  (void)in_u8(); const std::uint64_t k = verif_fixed_k();
  ASSUME(k <= kmax);
  // thread A's call: its ghost effect (it passes a quiescent state / leaves) takes place when the call starts
  verif_yield_arm(k);
  act(A.t, A.a);
  verif_yield_disarm();
  PROP(verif_yield_seen() < kmax, "C05: the preemption index range covers every atomic access of the call (bound check)");
  if (!g_fired) { g_fired_after = true; verif_interfere(); g_fired_after = false; }          // not preempted: the others run afterwards
  check_now();
  for (unsigned i = 0; i < NS; i++) { act(suffix[i].t, suffix[i].a); check_now(); }
  if (three_rounds) {
    for (unsigned r = 0; r < 3; r++) for (unsigned t = 0; t < nthreads; t++) if (active[t]) { act(t, 0); check_now(); }
    for (unsigned i = 0; i < MAXOBJ; i++) if (i < nobj) PROP(objs[i].freed == 1, "C06: a request is executed no later than the end of the third round in which every registered thread quiesces");
  }
  // drain: all but one thread leave, the survivor (resumed if necessary) quiesces twice
  unsigned surv = 0; for (unsigned t = 0; t < nthreads; t++) if (active[t]) surv = t;
  for (unsigned t = 0; t < nthreads; t++) if (t != surv && active[t]) { act(t, 2); check_now(); }
  if (!active[surv]) act(surv, 3);
  act(surv, 0); act(surv, 0);
  check_now();
  for (unsigned i = 0; i < MAXOBJ; i++) if (i < nobj) PROP(objs[i].freed == 1, "C06: after the drain every deferred deallocation has run exactly once");
  PROP(T[surv]->previous_interval_requests_empty() && T[surv]->current_interval_requests_empty(), "C06: after the drain the surviving thread has no pending requests");
  PROP(qsbr::instance().previous_interval_orphaned_requests_empty() && qsbr::instance().current_interval_orphaned_requests_empty(), "C06: after the drain no orphaned requests remain");
  OBSERVE(nobj);
  WITNESS();
}
#define Q 0
#define R 1
#define P 2
#define U 3
static const call NONE[1] = {{0, 99}};
#define SCENQ(name, nth, A_, kmax, three, PRE, INT, SUF) \
  static const call name##_pre[] = PRE; static const call name##_int[] = INT; static const call name##_suf[] = SUF; \
  HARNESS(name) { scenario(nth, name##_pre, call A_, name##_int, name##_suf, kmax, three); }
#define L(...) {__VA_ARGS__}
// a thread leaves (advancing the epoch) while a departed thread's request is orphaned and a third thread has not quiesced since the retire
SCENQ(q_leave_orphan, 3, ({2, P}), 60, false, L({0, Q}, {1, R}, {1, P}), L({0, 99}), L({0, Q}, {0, Q}))
SCENQ(q_leave_orphan4, 4, ({2, P}), 60, false, L({0, Q}, {3, Q}, {1, R}, {1, P}, {3, P}), L({0, 99}), L({0, Q}, {0, Q}))
// the last quiescent state of an epoch (epoch change + orphan ageing) racing with two departures that orphan requests
SCENQ(q_epoch_vs_2pause, 4, ({0, Q}), 60, false, L({1, R}, {2, R}, {3, R}, {3, P}, {1, Q}, {2, Q}, {1, R}, {2, R}), L({1, P}, {2, P}), L({0, Q}))
// ... with the departing threads holding PREVIOUS-interval requests and an older orphaned list being aged (the tail-append fallback of the orphan hand-over)
SCENQ(q_epoch_vs_2pause_prev, 4, ({0, Q}), 60, false, L({1, R}, {2, R}, {0, Q}, {1, Q}, {2, Q}, {3, Q}, {3, R}, {3, P}, {1, Q}, {2, Q}), L({1, P}, {2, P}), L({0, Q}))
SCENQ(q_epoch_vs_pause, 3, ({0, Q}), 60, true, L({1, R}, {2, R}, {1, Q}, {2, Q}, {1, R}), L({1, P}), L({0, Q}))
// a departure that advances the epoch racing with a retire / a quiescent state of another thread
SCENQ(q_pause_vs_retire, 3, ({0, P}), 60, false, L({1, Q}, {2, Q}, {1, R}), L({1, R}, {2, R}), L({1, Q}, {2, Q}))
SCENQ(q_pause_vs_q, 3, ({0, P}), 60, true, L({0, R}, {1, R}, {1, Q}), L({2, Q}, {1, Q}), L({0, 99}))
// two departures pushing onto the same orphan list (lock-free push: head load ... CAS)
SCENQ(q_pause_vs_pause, 3, ({0, P}), 60, false, L({0, R}, {1, R}), L({1, P}), L({2, Q}, {2, Q}))
SCENQ(q_pause_vs_pause_prev, 4, ({0, P}), 60, false, L({0, R}, {1, R}, {0, Q}, {1, Q}, {2, Q}, {3, Q}, {0, Q}, {1, Q}), L({1, P}), L({2, Q}, {3, Q}, {2, Q}, {3, Q}))
// retire racing with an epoch change completed by others
SCENQ(q_retire_vs_epoch, 3, ({0, R}), 40, true, L({0, Q}, {1, R}, {1, Q}), L({2, Q}, {1, Q}, {2, Q}), L({0, 99}))
// several retires by one thread after an epoch change completed by OTHERS and before its own next quiescent state (it has seen the new epoch
// through a request but not through a quiescent state): every one of them must be kept
SCENQ(q_2retire_new_epoch, 3, ({0, R}), 40, true, L({0, Q}, {1, Q}, {2, Q}, {0, R}), L({1, Q}), L({0, R}, {0, 99}))
// resume (register) racing with quiescent states / a retire of others
SCENQ(q_resume_vs_q, 3, ({0, U}), 40, true, L({0, P}, {1, R}, {1, Q}), L({2, Q}, {1, Q}), L({0, 99}))
SCENQ(q_resume_vs_retire, 3, ({0, U}), 40, false, L({0, P}, {1, Q}, {2, Q}), L({1, R}, {2, Q}, {1, Q}), L({0, Q}))
// quiescent state racing with another thread's departure with pending requests
SCENQ(q_q_vs_pause, 3, ({0, Q}), 60, true, L({1, R}, {2, Q}, {1, Q}), L({1, P}), L({0, 99}))
SCENQ(q_q_vs_resume, 3, ({0, Q}), 60, false, L({2, P}, {1, R}, {1, Q}), L({2, U}, {2, R}), L({1, Q}, {2, Q}))
// a leaver that advances the epoch has its state-word CAS fail because a thread that ALREADY quiesced in this epoch leaves in the window (thread-count-only
// change, so the retry still advances the epoch): the orphan lists must be aged ONCE for this one epoch change.  A request retired in the current epoch by a
// thread that paused afterwards sits on the orphaned current-interval list while thread 0 (quiesced before the retire) still holds a reference (seed C05d)
SCENQ(q_leave_cas_retry, 3, ({1, P}), 60, false, L({0, Q}, {2, R}, {2, P}, {2, U}, {2, Q}), L({2, P}), L({0, Q}, {0, Q}))
SCENQ(q_leave_cas_retry4, 4, ({1, P}), 60, false, L({0, Q}, {3, Q}, {2, R}, {2, P}, {2, U}, {2, Q}), L({3, P}), L({0, Q}, {0, Q}))
