// C02 (L1): the comparison kernels that pick direction and end of scan_range and order keys everywhere.
#include "verif.hpp"
#include "art_common.hpp"
#include "art_internal.hpp"
using namespace unodb;
#ifndef LMAX
#define LMAX 4
#endif
static int spec_lex(const std::uint8_t* a, std::size_t la, const std::uint8_t* b, std::size_t lb) {
  for (std::size_t i = 0; i < LMAX; i++) {
    if (i >= la || i >= lb) break;
    if (a[i] != b[i]) return a[i] < b[i] ? -1 : 1;
  }
  return la == lb ? 0 : (la < lb ? -1 : 1);
}
HARNESS(h_compare) {
  std::uint8_t a[LMAX], b[LMAX];
  for (int i = 0; i < LMAX; i++) { a[i] = in_u8(); b[i] = in_u8(); }
  const std::size_t la = in_range(0, LMAX), lb = in_range(0, LMAX);
  const int c = sgn(detail::compare(a, la, b, lb));
  PROP(c == spec_lex(a, la, b, lb), "C02: compare(a,alen,b,blen) is the byte-wise lexicographic order (shorter prefix first)");
  const int c2 = sgn(detail::compare(key_view{reinterpret_cast<const std::byte*>(a), la}, key_view{reinterpret_cast<const std::byte*>(b), lb}));
  PROP(c2 == c, "C02: compare(key_view,key_view) agrees with compare(ptr,len,ptr,len)");
  OBSERVE(c);
  WITNESS();
}
HARNESS(h_artkey_u64) {
  const std::uint64_t x = in_u64(), y = in_u64();
  detail::basic_art_key<std::uint64_t> kx{x}, ky{y};
  const int spec = x < y ? -1 : (x > y ? 1 : 0);
  PROP(sgn(kx.cmp(ky)) == spec, "C02: art_key<uint64>::cmp(art_key) is the numeric order of the keys");
  PROP(sgn(kx.cmp(ky.get_key_view())) == spec, "C02: art_key<uint64>::cmp(key_view) is the numeric order of the keys");
  for (unsigned i = 0; i < 8; i++) PROP(static_cast<std::uint8_t>(kx[i]) == static_cast<std::uint8_t>(x >> (8 * (7 - i))), "C02: art_key<uint64>[i] is the i-th most significant byte");
  const unsigned sh = static_cast<unsigned>(in_range(0, 7));
  detail::basic_art_key<std::uint64_t> ks{x}; ks.shift_right(sh);
  PROP(static_cast<std::uint8_t>(ks[0]) == static_cast<std::uint8_t>(x >> (8 * (7 - sh))), "C02: shift_right(n) drops the n leading key bytes");
  OBSERVE(sgn(kx.cmp(ky)));
  WITNESS();
}
// byte-string keys living in two distinct caller buffers: the result must depend on the bytes only
HARNESS(h_artkey_kv) {
  std::uint8_t a[LMAX], b[LMAX];
  for (int i = 0; i < LMAX; i++) { a[i] = in_u8(); b[i] = in_u8(); }
  const std::size_t la = in_range(1, LMAX), lb = in_range(1, LMAX);
  detail::basic_art_key<key_view> ka{key_view{reinterpret_cast<const std::byte*>(a), la}}, kb{key_view{reinterpret_cast<const std::byte*>(b), lb}};
  const int spec = spec_lex(a, la, b, lb);
  PROP(sgn(ka.cmp(kb)) == spec, "C02: art_key<key_view>::cmp(art_key) is the byte-wise order of the key bytes, wherever the buffers live");
  PROP(sgn(ka.cmp(kb.get_key_view())) == spec, "C02: art_key<key_view>::cmp(key_view) is the byte-wise order of the key bytes");
  OBSERVE(spec);
  WITNESS();
}
