// C13: lock discipline of mutex_db - every inner-index call runs with the index mutex held (entry hooks injected by the
// translator assert it), every public method returns with the mutex released, except get() on a hit whose handle owns it.
#include "verif.hpp"
#include "mutex_art.hpp"
using namespace unodb;
using db_t = unodb::mutex_db<std::uint64_t, unodb::value_view>;
static unodb::value_view vv(const std::uint8_t* b, std::size_t n) { return unodb::value_view{reinterpret_cast<const std::byte*>(b), n}; }
#define B 0x0102030405060700ULL
static const std::uint64_t K[] = {B | 0x10, B | 0x20, B | 0x30};
static void build(db_t& d) {
  for (unsigned i = 0; i < 3; i++) { std::uint8_t v = static_cast<std::uint8_t>(i + 1); bool r = d.insert(K[i], vv(&v, i == 1 ? 0 : 1)); /* K[1] has an EMPTY value */ PROP(r, "C13: prelude insert succeeds"); PROP(verif_mutex_held() == 0, "C13: insert returns with the index mutex released"); }
}
static int idx_of(std::uint64_t k) { int r = -1; for (unsigned i = 0; i < 3; i++) if (K[i] == k) r = static_cast<int>(i); return r; }

HARNESS(mx_get) {
  static db_t d; build(d);
  const std::uint64_t k = in_u64();
  const int idx = idx_of(k);
  {
    auto r = d.get(k);
    PROP(r.first.has_value() == (idx >= 0), "C13: get finds a key iff present");
    PROP(db_t::key_found(r) == (idx >= 0), "C13: key_found agrees with the result");
    if (r.first.has_value()) {
      PROP(r.second.owns_lock(), "C13: a get that finds its key returns a handle that owns the index mutex");
      PROP(verif_mutex_held() == 1, "C13: ... and the mutex is really held while the handle lives");
      PROP(r.first->size() == (idx == 1 ? 0u : 1u) && (idx == 1 || static_cast<std::uint8_t>((*r.first)[0]) == static_cast<std::uint8_t>(idx + 1)), "C13: the value bytes are those of the entry while the handle is held (entry #1 has an empty value)");
    } else {
      PROP(!r.second.owns_lock(), "C13: a get that misses returns a handle that does not own the mutex");
      PROP(verif_mutex_held() == 0, "C13: a get that misses returns with the mutex released");
    }
    OBSERVE(r.first.has_value()); OBSERVE(r.second.owns_lock());
  }
  PROP(verif_mutex_held() == 0, "C13: dropping the handle releases the mutex");
  WITNESS();
}
HARNESS(mx_insert) {
  static db_t d; build(d);
  const std::uint64_t k = in_u64(); const std::uint8_t v = in_u8();
  const bool r = d.insert(k, vv(&v, 1));
  PROP(r == (idx_of(k) < 0), "C13: insert succeeds iff absent");
  PROP(verif_mutex_held() == 0, "C13: insert returns with the index mutex released");
  PROP(!d.empty(), "C13: empty() reports entries"); PROP(verif_mutex_held() == 0, "C13: empty() returns with the index mutex released");
  OBSERVE(r);
  WITNESS();
}
HARNESS(mx_remove) {
  static db_t d; build(d);
  const std::uint64_t k = in_u64();
  const bool r = d.remove(k);
  PROP(r == (idx_of(k) >= 0), "C13: remove succeeds iff present");
  PROP(verif_mutex_held() == 0, "C13: remove returns with the index mutex released");
  { auto g = d.get(k); PROP(!g.first.has_value() && !g.second.owns_lock(), "C13: a removed key misses without the lock"); }
  PROP(verif_mutex_held() == 0, "C13: get (miss) returns with the index mutex released");
  OBSERVE(r);
  WITNESS();
}
struct cnt { unsigned n; unsigned held_bad; };
HARNESS(mx_scan_clear) {
  static db_t d; build(d);
  cnt c{0, 0};
  const std::uint64_t halt = in_range(1, 4);
  auto fn = [&c, halt](const auto&) { c.n++; if (verif_mutex_held() != 1) c.held_bad++; return c.n >= halt; };
  d.scan(fn, true);
  PROP(verif_mutex_held() == 0, "C13: scan returns with the index mutex released");
  PROP(c.held_bad == 0, "C13: the visitor runs with the index mutex held");
  PROP(c.n == (halt < 3 ? halt : 3), "C13: scan visits the entries until halted");
  d.scan(fn, false); PROP(verif_mutex_held() == 0, "C13: reverse scan returns with the index mutex released");
  d.clear();
  PROP(verif_mutex_held() == 0, "C13: clear returns with the index mutex released");
  PROP(d.empty(), "C13: clear leaves no entries");
  OBSERVE(c.n);
  WITNESS();
}
