// C13: lock discipline of mutex_db - every inner-index call runs with the index mutex held (entry hooks injected by the
// translator assert it), every public method returns with the mutex released, except get() on a hit whose handle owns it.
#include "verif.hpp"
#include "mutex_art.hpp"
using namespace unodb;
using db_t = unodb::mutex_db<std::uint64_t, unodb::value_view>;
static unodb::value_view vv(const std::uint8_t* b, std::size_t n) { return unodb::value_view{reinterpret_cast<const std::byte*>(b), n}; }
#define B 0x0102030405060700ULL
static const std::uint64_t K[] = {B | 0x10, B | 0x20, B | 0x30};
static void build(db_t& d) {
  for (unsigned i = 0; i < 3; i++) { std::uint8_t v = static_cast<std::uint8_t>(i + 1); bool r = d.insert(K[i], vv(&v, i == 1 ? 0 : 1)); /* K[1] has an EMPTY value */ PROP(r, "C13: prelude insert succeeds"); PROP(verif_mutex_held() == 0, "C13: insert returns with the index mutex released"); }
}
static int idx_of(std::uint64_t k) { int r = -1; for (unsigned i = 0; i < 3; i++) if (K[i] == k) r = static_cast<int>(i); return r; }

HARNESS(mx_get) {
  static db_t d; build(d);
  const std::uint64_t k = in_u64();
  const int idx = idx_of(k);
  {
    auto r = d.get(k);
    PROP(r.first.has_value() == (idx >= 0), "C13: get finds a key iff present");
    PROP(db_t::key_found(r) == (idx >= 0), "C13: key_found agrees with the result");
    if (r.first.has_value()) {
      PROP(r.second.owns_lock(), "C13: a get that finds its key returns a handle that owns the index mutex");
      PROP(verif_mutex_held() == 1, "C13: ... and the mutex is really held while the handle lives");
      PROP(r.first->size() == (idx == 1 ? 0u : 1u) && (idx == 1 || static_cast<std::uint8_t>((*r.first)[0]) == static_cast<std::uint8_t>(idx + 1)), "C13: the value bytes are those of the entry while the handle is held (entry #1 has an empty value)");
    } else {
      PROP(!r.second.owns_lock(), "C13: a get that misses returns a handle that does not own the mutex");
      PROP(verif_mutex_held() == 0, "C13: a get that misses returns with the mutex released");
    }
    OBSERVE(r.first.has_value()); OBSERVE(r.second.owns_lock());
  }
  PROP(verif_mutex_held() == 0, "C13: dropping the handle releases the mutex");
  WITNESS();
}
HARNESS(mx_insert) {
  static db_t d; build(d);
  const std::uint64_t k = in_u64(); const std::uint8_t v = in_u8();
  const bool r = d.insert(k, vv(&v, 1));
  PROP(r == (idx_of(k) < 0), "C13: insert succeeds iff absent");
  PROP(verif_mutex_held() == 0, "C13: insert returns with the index mutex released");
  PROP(!d.empty(), "C13: empty() reports entries"); PROP(verif_mutex_held() == 0, "C13: empty() returns with the index mutex released");
  OBSERVE(r);
  WITNESS();
}
HARNESS(mx_remove) {
  static db_t d; build(d);
  const std::uint64_t k = in_u64();
  const bool r = d.remove(k);
  PROP(r == (idx_of(k) >= 0), "C13: remove succeeds iff present");
  PROP(verif_mutex_held() == 0, "C13: remove returns with the index mutex released");
  { auto g = d.get(k); PROP(!g.first.has_value() && !g.second.owns_lock(), "C13: a removed key misses without the lock"); }
  PROP(verif_mutex_held() == 0, "C13: get (miss) returns with the index mutex released");
  OBSERVE(r);
  WITNESS();
}
struct cnt { unsigned n; unsigned held_bad; };
HARNESS(mx_scan_clear) {
  static db_t d; build(d);
  cnt c{0, 0};
  const std::uint64_t halt = in_range(1, 4);
  auto fn = [&c, halt](const auto&) { c.n++; if (verif_mutex_held() != 1) c.held_bad++; return c.n >= halt; };
  d.scan(fn, true);
  PROP(verif_mutex_held() == 0, "C13: scan returns with the index mutex released");
  PROP(c.held_bad == 0, "C13: the visitor runs with the index mutex held");
  PROP(c.n == (halt < 3 ? halt : 3), "C13: scan visits the entries until halted");
  d.scan(fn, false); PROP(verif_mutex_held() == 0, "C13: reverse scan returns with the index mutex released");
  d.clear();
  PROP(verif_mutex_held() == 0, "C13: clear returns with the index mutex released");
  PROP(d.empty(), "C13: clear leaves no entries");
  OBSERVE(c.n);
  WITNESS();
}

// scan_from / scan_range: the visitor must run under the mutex, the call must return with it released, and the visit sequence must be
// that of the 3-entry map (so a scan that lost its lock AND its content is also seen).  A symbolic bound makes the iterator stack
// symbolic and the query ran out of 20 GB; the bound is therefore a constant per entry (boundary catalogue below) and the halting
// position of the visitor is the symbolic input.
struct rec { unsigned n; unsigned held_bad; std::uint64_t keys[4]; };
template <class V> static std::uint64_t key_of(const V& v) { auto kv = v.get_key(); std::uint64_t k = 0; for (std::size_t i = 0; i < 8 && i < kv.size(); i++) k = (k << 8) | static_cast<std::uint8_t>(kv[i]); return k; }
static void scan_from_case(std::uint64_t from, bool fwd) {
  static db_t d; build(d);
  rec c{0, 0, {0, 0, 0, 0}};
  const std::uint64_t halt = in_range(1, 4);
  auto fn = [&c, halt](const auto& v) { if (c.n < 4) c.keys[c.n] = key_of(v); c.n++; if (verif_mutex_held() != 1) c.held_bad++; return c.n >= halt; };
  d.scan_from(from, fn, fwd);
  PROP(verif_mutex_held() == 0, "C13: scan_from returns with the index mutex released");
  PROP(c.held_bad == 0, "C13: the scan_from visitor runs with the index mutex held");
  unsigned exp = 0; std::uint64_t ek[3];
  if (fwd) { for (unsigned i = 0; i < 3; i++) if (K[i] >= from) ek[exp++] = K[i]; }
  else { for (unsigned i = 3; i-- > 0;) if (K[i] <= from) ek[exp++] = K[i]; }
  if (exp > halt) exp = static_cast<unsigned>(halt);
  PROP(c.n == exp, "C13: scan_from visits exactly the entries from the bound onwards, until halted");
  for (unsigned i = 0; i < 3; i++) if (i < exp && i < c.n) PROP(c.keys[i] == ek[i], "C13: scan_from visits them in key order");
  { auto g = d.get(K[0]); PROP(g.first.has_value() && g.second.owns_lock(), "C13: the index is usable after the scan (the mutex is free)"); }
  OBSERVE(c.n);
  WITNESS();
}
static void scan_range_case(std::uint64_t from, std::uint64_t to) {
  static db_t d; build(d);
  rec c{0, 0, {0, 0, 0, 0}};
  const std::uint64_t halt = in_range(1, 4);
  auto fn = [&c, halt](const auto& v) { if (c.n < 4) c.keys[c.n] = key_of(v); c.n++; if (verif_mutex_held() != 1) c.held_bad++; return c.n >= halt; };
  d.scan_range(from, to, fn);
  PROP(verif_mutex_held() == 0, "C13: scan_range returns with the index mutex released");
  PROP(c.held_bad == 0, "C13: the scan_range visitor runs with the index mutex held");
  unsigned exp = 0; std::uint64_t ek[3];
  if (from < to) { for (unsigned i = 0; i < 3; i++) if (K[i] >= from && K[i] < to) ek[exp++] = K[i]; }
  else if (from > to) { for (unsigned i = 3; i-- > 0;) if (K[i] <= from && K[i] > to) ek[exp++] = K[i]; }
  if (exp > halt) exp = static_cast<unsigned>(halt);
  PROP(c.n == exp, "C13: scan_range visits exactly the entries of the interval, until halted");
  for (unsigned i = 0; i < 3; i++) if (i < exp && i < c.n) PROP(c.keys[i] == ek[i], "C13: scan_range visits them in key order");
  OBSERVE(c.n);
  WITNESS();
}
#define OTHER 0x01020304FF060700ULL   /* diverges inside the compressed prefix */
#define SF(name, from) HARNESS(mx_sf_##name##_f) { scan_from_case(from, true); } HARNESS(mx_sf_##name##_r) { scan_from_case(from, false); }
SF(zero, 0ULL) SF(k0, K[0]) SF(k0p, K[0] + 1) SF(k1, K[1]) SF(k2, K[2]) SF(k2p, K[2] + 1) SF(max, ~0ULL) SF(other, OTHER)
#define SR(name, from, to) HARNESS(mx_sr_##name) { scan_range_case(from, to); }
SR(k0_k2, K[0], K[2]) SR(k2_k0, K[2], K[0]) SR(all_up, K[0] - 1, K[2] + 1) SR(all_down, K[2] + 1, K[0] - 1) SR(equal, K[1], K[1])
SR(mid_up, K[0] + 1, K[1] + 1) SR(mid_down, K[1] + 1, K[0] + 1) SR(full_up, 0ULL, ~0ULL) SR(full_down, ~0ULL, 0ULL)
#ifdef UNODB_DETAIL_WITH_STATS
// the statistics getters read index state: they too must run under the mutex and release it
HARNESS(mx_stats) {
  static db_t d; build(d);
  const std::uint64_t k = in_u64(); const std::uint8_t v = 7;
  (void)d.insert(k, vv(&v, 1));
  const auto mem = d.get_current_memory_use(); PROP(verif_mutex_held() == 0, "C13: get_current_memory_use returns with the index mutex released");
  const auto nc = d.get_node_count<node_type::LEAF>(); PROP(verif_mutex_held() == 0, "C13: get_node_count returns with the index mutex released");
  const auto ncs = d.get_node_counts(); PROP(verif_mutex_held() == 0, "C13: get_node_counts returns with the index mutex released");
  const auto g = d.get_growing_inode_count<node_type::I4>(); PROP(verif_mutex_held() == 0, "C13: get_growing_inode_count returns with the index mutex released");
  const auto gs = d.get_growing_inode_counts(); PROP(verif_mutex_held() == 0, "C13: get_growing_inode_counts returns with the index mutex released");
  const auto sh = d.get_shrinking_inode_count<node_type::I4>(); PROP(verif_mutex_held() == 0, "C13: get_shrinking_inode_count returns with the index mutex released");
  const auto shs = d.get_shrinking_inode_counts(); PROP(verif_mutex_held() == 0, "C13: get_shrinking_inode_counts returns with the index mutex released");
  const auto ps = d.get_key_prefix_splits(); PROP(verif_mutex_held() == 0, "C13: get_key_prefix_splits returns with the index mutex released");
  const unsigned leaves = idx_of(k) >= 0 ? 3u : 4u;
  PROP(nc == leaves && ncs[as_i<node_type::LEAF>] == leaves, "C13: the leaf count read through the mutex index is the number of entries");
  PROP(mem > 0 && g >= 1 && gs[internal_as_i<node_type::I4>] == g && sh == shs[internal_as_i<node_type::I4>], "C13: the counters read through the mutex index are consistent with each other");
  OBSERVE(mem); OBSERVE(nc); OBSERVE(ps);
  WITNESS();
}
#endif

// Contended: ANOTHER thread holds the index mutex (e.g. the caller of a get() that found its key still owns the returned handle).  Every
// public method must then wait in lock() - in the encoding the run ends there, reached - and none may enter the inner index or return.
// A method that merely TRIES to take the mutex and carries on regardless reaches the entry hook without holding it.
HARNESS(mx_contended) {
  static db_t d; build(d);
  const std::uint64_t k = in_u64(); const std::uint8_t v = 9;
  const unsigned op = static_cast<unsigned>(in_range(0, 15));
  unsigned n = 0; auto fn = [&n](const auto&) { n++; return false; };
  verif_mutex_foreign(1);
  switch (op) {
    case 0: { auto r = d.get(k); (void)r; break; }
    case 1: (void)d.insert(k, vv(&v, 1)); break;
    case 2: (void)d.remove(k); break;
    case 3: d.clear(); break;
    case 4: (void)d.empty(); break;
    case 5: d.scan(fn, true); break;
    case 6: d.scan(fn, false); break;
    case 7: d.scan_from(K[1], fn, true); break;
    case 8: d.scan_from(K[1], fn, false); break;
    case 9: d.scan_range(K[0], K[2], fn); break;
#ifdef UNODB_DETAIL_WITH_STATS
    case 10: (void)d.get_current_memory_use(); break;
    case 11: (void)d.get_node_count<node_type::LEAF>(); break;
    case 12: (void)d.get_node_counts(); break;
    case 13: (void)d.get_growing_inode_counts(); break;
    case 14: (void)d.get_shrinking_inode_counts(); break;
    case 15: (void)d.get_key_prefix_splits(); break;
#endif
    default: { auto r = d.get(k); (void)r; break; }
  }
  PROP(false, "C13: no operation completes (or touches the index) while another thread holds the index mutex");
  verif_witness();
}
