// C01 / C02 / C16 (L2): one inner node of each size class in an arbitrary valid state, one operation, all key bytes symbolic.
// The node object is laid out directly (private members are reached with the usual white-box trick) so that the
// state is an arbitrary member of the representation invariant rather than whatever a particular history produces.
#include "verif.hpp"
#include <algorithm>
#include <array>
#include <atomic>
#include <cstring>
#include <iostream>
#include <memory>
#include <optional>
#include <span>
#include <sstream>
#include <stack>
#include <thread>
#include <mutex>
#include <type_traits>
#include <vector>
#include <bit>
#define private public
#define protected public
#include "art.hpp"
#undef private
#undef protected
using namespace unodb;
using namespace unodb::detail;

using db_t = unodb::db<std::uint64_t, unodb::value_view>;
using N4 = inode_4<std::uint64_t, unodb::value_view>;
using N16 = inode_16<std::uint64_t, unodb::value_view>;
using N48 = inode_48<std::uint64_t, unodb::value_view>;
using N256 = inode_256<std::uint64_t, unodb::value_view>;
using np = unodb::detail::node_ptr;

static db_t the_db;

template <class N> static N* raw_node() {
  void* m = allocate_aligned(sizeof(N), alignof(N) > 16 ? alignof(N) : 16);
  std::memset(m, 0, sizeof(N));
  return static_cast<N*>(m);
}
static np opaque(unsigned i) {  // a distinct non-null word with LEAF tag that is never dereferenced
  np p; const std::uint64_t w = 0x10000ULL + 8ULL * i; std::memcpy(&p, &w, 8); return p;
}
static std::uint64_t word(const np& p) { std::uint64_t w; std::memcpy(&w, &p, 8); return w; }
template <class T> static std::uint64_t slotword(const T& slot) { std::uint64_t w; std::memcpy(&w, &slot, 8); return w; }
static auto real_leaf(std::uint64_t key) {
  static const std::uint8_t vb = 0x5A;
  return make_db_leaf_ptr<std::uint64_t, unodb::value_view, unodb::db>(basic_art_key<std::uint64_t>{key}, unodb::value_view{reinterpret_cast<const std::byte*>(&vb), 1}, the_db);
}

// n strictly increasing symbolic bytes
template <unsigned N> static void sorted_bytes(std::uint8_t (&b)[N]) {
  for (unsigned i = 0; i < N; i++) b[i] = in_u8();
  for (unsigned i = 1; i < N; i++) ASSUME(b[i - 1] < b[i]);
}
template <unsigned N> static int pos_of(const std::uint8_t (&b)[N], std::uint8_t k) { int p = -1; for (unsigned i = 0; i < N; i++) if (b[i] == k) p = static_cast<int>(i); return p; }
template <unsigned N> static int ceil_of(const std::uint8_t (&b)[N], std::uint8_t k) { int p = -1; for (unsigned i = N; i-- > 0;) if (b[i] >= k) p = static_cast<int>(i); return p; }
template <unsigned N> static int floor_of(const std::uint8_t (&b)[N], std::uint8_t k) { int p = -1; for (unsigned i = 0; i < N; i++) if (b[i] <= k) p = static_cast<int>(i); return p; }

// ================================================================ I4 / I16: sorted dense key array
template <class ND, unsigned N> static ND* make_sorted(const std::uint8_t (&b)[N]) {
  ND* n = raw_node<ND>();
  n->children_count = static_cast<std::uint8_t>(N);
  for (unsigned i = 0; i < N; i++) { n->keys.byte_array[i] = static_cast<std::byte>(b[i]); n->children[i] = opaque(i); }
  return n;
}
template <class ND, unsigned N> static void sorted_find_enum() {
  std::uint8_t b[N]; sorted_bytes(b);
  ND* n = make_sorted<ND, N>(b);
  const std::uint8_t k = in_u8();
  const int p = pos_of(b, k);
  auto fr = n->find_child(static_cast<std::byte>(k));
  PROP((fr.second != nullptr) == (p >= 0), "C01: find_child finds a child iff the key byte is present in the node");
  if (fr.second != nullptr && p >= 0) {
    PROP(fr.first == p, "C01: find_child returns the index of the key byte");
    PROP(slotword(*fr.second) == word(opaque(static_cast<unsigned>(p))), "C01: find_child returns the child slot of that key byte");
  }
  // ordered enumeration against the sorted list
  auto bg = n->begin(); auto ls = n->last();
  PROP(static_cast<std::uint8_t>(bg.key_byte) == b[0] && bg.child_index == 0, "C02: begin() is the smallest key byte");
  PROP(static_cast<std::uint8_t>(ls.key_byte) == b[N - 1] && ls.child_index == N - 1, "C02: last() is the greatest key byte");
  const std::uint8_t ci = static_cast<std::uint8_t>(in_range(0, N - 1));
  auto nx = n->next(ci); auto pr = n->prior(ci);
  PROP(nx.has_value() == (ci + 1u < N), "C02: next() ends exactly after the last child");
  if (nx.has_value() && ci + 1u < N) PROP(nx->child_index == ci + 1 && static_cast<std::uint8_t>(nx->key_byte) == b[ci + 1], "C02: next() is the successor in key-byte order");
  PROP(pr.has_value() == (ci > 0), "C02: prior() ends exactly before the first child");
  if (pr.has_value() && ci > 0) PROP(pr->child_index == ci - 1 && static_cast<std::uint8_t>(pr->key_byte) == b[ci - 1], "C02: prior() is the predecessor in key-byte order");
  auto ge = n->gte_key_byte(static_cast<std::byte>(k)); auto le = n->lte_key_byte(static_cast<std::byte>(k));
  const int cp = ceil_of(b, k), fp = floor_of(b, k);
  PROP(ge.has_value() == (cp >= 0), "C02: gte_key_byte finds an entry iff some key byte >= the probe");
  if (ge.has_value() && cp >= 0) PROP(ge->child_index == cp && static_cast<std::uint8_t>(ge->key_byte) == b[cp], "C02: gte_key_byte is the ceiling of the probe");
  PROP(le.has_value() == (fp >= 0), "C02: lte_key_byte finds an entry iff some key byte <= the probe");
  if (le.has_value() && fp >= 0) PROP(le->child_index == fp && static_cast<std::uint8_t>(le->key_byte) == b[fp], "C02: lte_key_byte is the floor of the probe");
  OBSERVE(fr.first); OBSERVE(ge.has_value() ? ge->child_index : 0xEE); OBSERVE(le.has_value() ? le->child_index : 0xEE);
  free_aligned(n);
  WITNESS();
}
template <class ND, unsigned N> static void sorted_add() {
  static_assert(N < ND::capacity);
  std::uint8_t b[N]; sorted_bytes(b);
  ND* n = make_sorted<ND, N>(b);
  const std::uint8_t k = in_u8();
  ASSUME(pos_of(b, k) < 0);                       // caller contract: key byte absent
  const unsigned depth = static_cast<unsigned>(in_range(0, 7));
  const std::uint64_t key = static_cast<std::uint64_t>(k) << (8 * (7 - depth));
  auto leaf = real_leaf(key);
  const std::uint64_t leafword = reinterpret_cast<std::uint64_t>(leaf.get());
  n->add_to_nonfull(std::move(leaf), tree_depth<basic_art_key<std::uint64_t>>{depth}, static_cast<std::uint8_t>(N));
  PROP(n->children_count == N + 1, "C01: add_to_nonfull increments the child count");
  unsigned ins = 0; for (unsigned i = 0; i < N; i++) if (b[i] < k) ins = i + 1;
  for (unsigned i = 0; i <= N; i++) {
    const std::uint8_t eb = i < ins ? b[i] : (i == ins ? k : b[i - 1]);
    const std::uint64_t ew = i < ins ? word(opaque(i)) : (i == ins ? leafword : word(opaque(i - 1)));
    PROP(static_cast<std::uint8_t>(n->keys.byte_array[i].load()) == eb, "C01: add_to_nonfull keeps the key bytes sorted with the new byte in place");
    PROP(slotword(n->children[i]) == ew, "C01: add_to_nonfull keeps every child attached to its key byte");
  }
  OBSERVE(ins);
  free_aligned(reinterpret_cast<void*>(leafword)); free_aligned(n);
  WITNESS();
}
template <class ND, unsigned N, unsigned DEL> static void sorted_remove() {
  std::uint8_t b[N]; sorted_bytes(b);
  ND* n = make_sorted<ND, N>(b);
  auto leaf = real_leaf(static_cast<std::uint64_t>(b[DEL]));
  n->children[DEL] = np{leaf.release(), node_type::LEAF};
  const std::uint64_t live0 = verif_live_allocs();
  n->remove(static_cast<std::uint8_t>(DEL), the_db);
  PROP(verif_live_allocs() + 1 == live0, "C01: remove() releases exactly the removed leaf");
  PROP(n->children_count == N - 1, "C01: remove() decrements the child count");
  for (unsigned i = 0; i + 1 < N; i++) {
    const unsigned s = i < DEL ? i : i + 1;
    PROP(static_cast<std::uint8_t>(n->keys.byte_array[i].load()) == b[s], "C01: remove() closes the gap in the key bytes");
    PROP(slotword(n->children[i]) == word(opaque(s)), "C01: remove() keeps every other child attached to its key byte");
  }
  auto fr = n->find_child(static_cast<std::byte>(b[DEL]));
  PROP(fr.second == nullptr, "C01: a removed key byte is no longer found");
  free_aligned(n);
  WITNESS();
}
HARNESS(n4_find_2) { sorted_find_enum<N4, 2>(); }
HARNESS(n4_find_3) { sorted_find_enum<N4, 3>(); }
HARNESS(n4_find_4) { sorted_find_enum<N4, 4>(); }
HARNESS(n4_add_2) { sorted_add<N4, 2>(); }
HARNESS(n4_add_3) { sorted_add<N4, 3>(); }
HARNESS(n4_rem_3_0) { sorted_remove<N4, 3, 0>(); }
HARNESS(n4_rem_4_1) { sorted_remove<N4, 4, 1>(); }
HARNESS(n4_rem_4_3) { sorted_remove<N4, 4, 3>(); }
HARNESS(n16_find_5) { sorted_find_enum<N16, 5>(); }
HARNESS(n16_find_11) { sorted_find_enum<N16, 11>(); }
HARNESS(n16_find_16) { sorted_find_enum<N16, 16>(); }
HARNESS(n16_add_5) { sorted_add<N16, 5>(); }
HARNESS(n16_add_15) { sorted_add<N16, 15>(); }
HARNESS(n16_rem_6_0) { sorted_remove<N16, 6, 0>(); }
HARNESS(n16_rem_16_7) { sorted_remove<N16, 16, 7>(); }
HARNESS(n16_rem_16_15) { sorted_remove<N16, 16, 15>(); }

// ================================================================ I48: byte -> slot index, arbitrary injective slot assignment
// slots: child i sits in slot i + (i >= h1) + (i >= h2) for two symbolic holes h1 <= h2 (injective by construction; the
// first free slot is h1, anywhere in 0..N).  All array writes use constant indices with symbolic values.
template <unsigned N> static N48* make_48(const std::uint8_t (&b)[N], std::uint8_t (&s)[N]) {
  static_assert(N + 2 <= 48);
  N48* n = raw_node<N48>();
  const unsigned h1 = static_cast<unsigned>(in_range(0, N)), h2 = static_cast<unsigned>(in_range(0, N));
  ASSUME(h1 <= h2);
  for (unsigned i = 0; i < N; i++) s[i] = static_cast<std::uint8_t>(i + (i >= h1 ? 1 : 0) + (i >= h2 ? 1 : 0));
  for (unsigned i = 0; i < 256; i++) {
    std::uint8_t v = N48::empty_child;
    for (unsigned j = 0; j < N; j++) if (b[j] == i) v = s[j];
    n->child_indexes[i] = v;
  }
  for (unsigned t = 0; t < 48; t++) {
    np v{nullptr};
    for (unsigned j = 0; j < N; j++) if (s[j] == t) v = opaque(j);
    n->children.pointer_array[t] = v;
  }
  n->children_count = static_cast<std::uint8_t>(N);
  return n;
}
template <unsigned N, int MODE> static void n48_find_enum() {
  std::uint8_t b[N], s[N]; sorted_bytes(b);
  N48* n = make_48<N>(b, s);
  const std::uint8_t k = in_u8();
  if constexpr (MODE == 0) {
  const int p = pos_of(b, k);
  auto fr = n->find_child(static_cast<std::byte>(k));
  PROP((fr.second != nullptr) == (p >= 0), "C01: find_child finds a child iff the key byte is present in the node");
  if (fr.second != nullptr && p >= 0) {
    PROP(fr.first == k, "C01: I48 child index is the key byte");
    PROP(slotword(*fr.second) == word(opaque(static_cast<unsigned>(p))), "C01: find_child returns the child slot of that key byte");
    PROP(word(n->get_child(k)) == word(opaque(static_cast<unsigned>(p))), "C01: get_child(index) returns the same child");
  }
  OBSERVE(fr.first);
  }
  if constexpr (MODE == 1) {
  auto bg = n->begin(); auto ls = n->last();
  PROP(static_cast<std::uint8_t>(bg.key_byte) == b[0] && bg.child_index == b[0], "C02: begin() is the smallest key byte");
  PROP(static_cast<std::uint8_t>(ls.key_byte) == b[N - 1] && ls.child_index == b[N - 1], "C02: last() is the greatest key byte");
  OBSERVE(bg.child_index); OBSERVE(ls.child_index);
  }
  if constexpr (MODE == 2) {
  auto nx = n->next(k); auto pr = n->prior(k);
  int sp = -1; for (unsigned i = N; i-- > 0;) if (b[i] > k) sp = static_cast<int>(i);
  int pp = -1; for (unsigned i = 0; i < N; i++) if (b[i] < k) pp = static_cast<int>(i);
  PROP(nx.has_value() == (sp >= 0), "C02: next() ends exactly after the last child");
  if (nx.has_value() && sp >= 0) PROP(static_cast<std::uint8_t>(nx->key_byte) == b[sp] && nx->child_index == b[sp], "C02: next() is the successor in key-byte order");
  PROP(pr.has_value() == (pp >= 0), "C02: prior() ends exactly before the first child");
  if (pr.has_value() && pp >= 0) PROP(static_cast<std::uint8_t>(pr->key_byte) == b[pp] && pr->child_index == b[pp], "C02: prior() is the predecessor in key-byte order");
  OBSERVE(nx.has_value()); OBSERVE(pr.has_value());
  }
  if constexpr (MODE == 3) {
  auto ge = n->gte_key_byte(static_cast<std::byte>(k)); auto le = n->lte_key_byte(static_cast<std::byte>(k));
  const int cp = ceil_of(b, k), fp = floor_of(b, k);
  PROP(ge.has_value() == (cp >= 0), "C02: gte_key_byte finds an entry iff some key byte >= the probe");
  if (ge.has_value() && cp >= 0) PROP(static_cast<std::uint8_t>(ge->key_byte) == b[cp], "C02: gte_key_byte is the ceiling of the probe");
  PROP(le.has_value() == (fp >= 0), "C02: lte_key_byte finds an entry iff some key byte <= the probe");
  if (le.has_value() && fp >= 0) PROP(static_cast<std::uint8_t>(le->key_byte) == b[fp], "C02: lte_key_byte is the floor of the probe");
  OBSERVE(ge.has_value()); OBSERVE(le.has_value());
  }
  free_aligned(n);
  WITNESS();
}
template <unsigned N> static void n48_add() {
  std::uint8_t b[N], s[N]; sorted_bytes(b);
  N48* n = make_48<N>(b, s);
  const std::uint8_t k = in_u8();
  ASSUME(pos_of(b, k) < 0);
  auto leaf = real_leaf(static_cast<std::uint64_t>(k));          // key byte at depth 7
  const std::uint64_t leafword = reinterpret_cast<std::uint64_t>(leaf.get());
  n->add_to_nonfull(std::move(leaf), tree_depth<basic_art_key<std::uint64_t>>{7}, static_cast<std::uint8_t>(N));
  PROP(n->children_count == N + 1, "C01: add_to_nonfull increments the child count");
  const std::uint8_t ns = n->child_indexes[k].load();
  PROP(ns < 48, "C01: the new key byte is mapped to a slot");
  for (unsigned i = 0; i < N; i++) PROP(ns != s[i], "C01: the new child goes to a free slot (no existing child is overwritten)");
  if (ns < 48) PROP(slotword(n->children.pointer_array[ns]) == leafword, "C01: the slot of the new key byte holds the new child");
  const std::uint8_t q = in_u8();   // any other byte keeps its mapping
  const int p = pos_of(b, q);
  if (q != k) { auto fr = n->find_child(static_cast<std::byte>(q)); PROP((fr.second != nullptr) == (p >= 0), "C01: add_to_nonfull leaves the other key bytes as they were");
    if (fr.second != nullptr && p >= 0) PROP(slotword(*fr.second) == word(opaque(static_cast<unsigned>(p))), "C01: add_to_nonfull keeps every child attached to its key byte"); }
  OBSERVE(ns);
  free_aligned(reinterpret_cast<void*>(leafword)); free_aligned(n);
  WITNESS();
}
template <unsigned N, unsigned DEL> static void n48_remove() {
  std::uint8_t b[N], s[N]; sorted_bytes(b);
  N48* n = make_48<N>(b, s);
  auto leaf = real_leaf(static_cast<std::uint64_t>(b[DEL]));
  n->children.pointer_array[s[DEL]] = np{leaf.release(), node_type::LEAF};
  const std::uint64_t live0 = verif_live_allocs();
  n->remove(b[DEL], the_db);
  PROP(verif_live_allocs() + 1 == live0, "C01: remove() releases exactly the removed leaf");
  PROP(n->children_count == N - 1, "C01: remove() decrements the child count");
  PROP(n->child_indexes[b[DEL]].load() == N48::empty_child, "C01: a removed key byte is no longer mapped");
  PROP(slotword(n->children.pointer_array[s[DEL]]) == 0, "C01: the slot of a removed child becomes free (null)");
  const std::uint8_t q = in_u8();
  const int p = pos_of(b, q);
  auto fr = n->find_child(static_cast<std::byte>(q));
  PROP((fr.second != nullptr) == (p >= 0 && static_cast<unsigned>(p) != DEL), "C01: remove() leaves exactly the other key bytes");
  if (fr.second != nullptr && p >= 0) PROP(slotword(*fr.second) == word(opaque(static_cast<unsigned>(p))), "C01: remove() keeps every other child attached to its key byte");
  free_aligned(n);
  WITNESS();
}
// the call under test kept in its own function so that the free-slot search loop can get its own (tight, checked) unwinding bound
static __attribute__((noinline)) void do_add48(N48* n, db_t::leaf_type* leaf_raw, std::uint8_t cnt) {
  n->add_to_nonfull(typename N48::db_leaf_unique_ptr{leaf_raw, unodb::detail::basic_db_leaf_deleter<db_t>{the_db}}, tree_depth<basic_art_key<std::uint64_t>>{7}, cnt);
}
// free-slot search in isolation: concrete key bytes (3i+1), symbolic hole positions over all 48 slots, nearly full node
template <unsigned N> static void n48_addslot() {
  std::uint8_t b[N], s[N];
  for (unsigned i = 0; i < N; i++) b[i] = static_cast<std::uint8_t>(3 * i + 1);
  N48* n = make_48<N>(b, s);
  const std::uint8_t k = static_cast<std::uint8_t>(3 * in_range(0, 80) + 2);   // absent by construction
  auto leaf = real_leaf(static_cast<std::uint64_t>(k));
  const std::uint64_t leafword = reinterpret_cast<std::uint64_t>(leaf.get());
  do_add48(n, leaf.release(), static_cast<std::uint8_t>(N));
  const std::uint8_t ns = n->child_indexes[k].load();
  PROP(ns < 48, "C01: the new key byte is mapped to a slot inside the node");
  for (unsigned i = 0; i < N; i++) PROP(ns != s[i], "C01: the new child goes to a free slot (no existing child is overwritten)");
  if (ns < 48) PROP(slotword(n->children.pointer_array[ns]) == leafword, "C01: the slot of the new key byte holds the new child");
  for (unsigned i = 0; i < N; i++) PROP(n->child_indexes[b[i]].load() == s[i] && slotword(n->children.pointer_array[s[i]]) == word(opaque(i)), "C01: add_to_nonfull keeps every child attached to its key byte");
  PROP(n->children_count == N + 1, "C01: add_to_nonfull increments the child count");
  OBSERVE(ns);
  free_aligned(reinterpret_cast<void*>(leafword)); free_aligned(n);
  WITNESS();
}
HARNESS(n48_addslot_46) { n48_addslot<46>(); }
HARNESS(n48_addslot_33) { n48_addslot<33>(); }
#ifndef N48N
#define N48N 17
#endif
HARNESS(n48_find) { n48_find_enum<N48N, 0>(); }
HARNESS(n48_ends) { n48_find_enum<N48N, 1>(); }
HARNESS(n48_step) { n48_find_enum<N48N, 2>(); }
HARNESS(n48_bound) { n48_find_enum<N48N, 3>(); }
HARNESS(n48_add) { n48_add<N48N>(); }
HARNESS(n48_rem_first) { n48_remove<N48N, 0>(); }
HARNESS(n48_rem_mid) { n48_remove<N48N, N48N / 2>(); }

// ================================================================ I256: presence bitmap
static bool bit(const std::uint64_t (&m)[4], unsigned i) { return (m[i >> 6] >> (i & 63)) & 1; }
static N256* make_256(std::uint64_t (&m)[4], unsigned& cnt) {
  for (auto& w : m) w = in_u64();
  N256* n = raw_node<N256>();
  cnt = 0;
  for (unsigned i = 0; i < 256; i++) if (bit(m, i)) { n->children[i] = opaque(i); cnt++; }
  ASSUME(cnt >= 1);
  n->children_count = static_cast<std::uint8_t>(cnt);
  return n;
}
template <int MODE> static void n256_find_enum() {
  std::uint64_t m[4]; unsigned cnt; N256* n = make_256(m, cnt);
  const std::uint8_t k = in_u8();
  const std::uint8_t w = in_u8();    // universally quantified witness byte
  if constexpr (MODE == 0) {
    auto fr = n->find_child(static_cast<std::byte>(k));
    PROP((fr.second != nullptr) == bit(m, k), "C01: find_child finds a child iff the key byte is present in the node");
    if (fr.second != nullptr) PROP(fr.first == k && slotword(*fr.second) == word(opaque(k)), "C01: find_child returns the child slot of that key byte");
    OBSERVE(fr.first);
  }
  if constexpr (MODE == 1) {
    auto bg = n->begin(); auto ls = n->last();
    const unsigned f = static_cast<unsigned>(bg.key_byte), l = static_cast<unsigned>(ls.key_byte);
    PROP(bit(m, f) && bg.child_index == f && (w >= f || !bit(m, w)), "C02: begin() is the smallest key byte");
    PROP(bit(m, l) && ls.child_index == l && (w <= l || !bit(m, w)), "C02: last() is the greatest key byte");
    OBSERVE(f); OBSERVE(l);
  }
  if constexpr (MODE == 2) {
    auto nx = n->next(k); auto pr = n->prior(k);
    if (nx.has_value()) { const unsigned r = static_cast<unsigned>(nx->key_byte); PROP(r > k && bit(m, r) && nx->child_index == r && !(w > k && w < r && bit(m, w)), "C02: next() is the successor in key-byte order"); }
    else PROP(!(w > k && bit(m, w)), "C02: next() ends exactly after the last child");
    if (pr.has_value()) { const unsigned r = static_cast<unsigned>(pr->key_byte); PROP(r < k && bit(m, r) && pr->child_index == r && !(w < k && w > r && bit(m, w)), "C02: prior() is the predecessor in key-byte order"); }
    else PROP(!(w < k && bit(m, w)), "C02: prior() ends exactly before the first child");
    OBSERVE(nx.has_value()); OBSERVE(pr.has_value());
  }
  if constexpr (MODE == 3) {
    auto ge = n->gte_key_byte(static_cast<std::byte>(k)); auto le = n->lte_key_byte(static_cast<std::byte>(k));
    if (ge.has_value()) { const unsigned r = static_cast<unsigned>(ge->key_byte); PROP(r >= k && bit(m, r) && !(w >= k && w < r && bit(m, w)), "C02: gte_key_byte is the ceiling of the probe"); }
    else PROP(!(w >= k && bit(m, w)), "C02: gte_key_byte finds an entry iff some key byte >= the probe");
    if (le.has_value()) { const unsigned r = static_cast<unsigned>(le->key_byte); PROP(r <= k && bit(m, r) && !(w <= k && w > r && bit(m, w)), "C02: lte_key_byte is the floor of the probe"); }
    else PROP(!(w <= k && bit(m, w)), "C02: lte_key_byte finds an entry iff some key byte <= the probe");
    OBSERVE(ge.has_value()); OBSERVE(le.has_value());
  }
  free_aligned(n);
  WITNESS();
}
HARNESS(n256_find) { n256_find_enum<0>(); }
HARNESS(n256_ends) { n256_find_enum<1>(); }
HARNESS(n256_step) { n256_find_enum<2>(); }
HARNESS(n256_bound) { n256_find_enum<3>(); }
HARNESS(n256_add_remove) {
  std::uint64_t m[4]; unsigned cnt; N256* n = make_256(m, cnt);
  ASSUME(cnt < 255);
  const std::uint8_t k = in_u8();
  ASSUME(!bit(m, k));
  auto leaf = real_leaf(static_cast<std::uint64_t>(k));
  const std::uint64_t leafword = reinterpret_cast<std::uint64_t>(leaf.get());
  n->add_to_nonfull(std::move(leaf), tree_depth<basic_art_key<std::uint64_t>>{7}, static_cast<std::uint8_t>(cnt));
  PROP(n->children_count == static_cast<std::uint8_t>(cnt + 1), "C01: add_to_nonfull increments the child count");
  PROP(slotword(n->children[k]) == leafword, "C01: the slot of the new key byte holds the new child");
  const std::uint8_t q = in_u8();
  if (q != k) PROP(slotword(n->children[q]) == (bit(m, q) ? word(opaque(q)) : 0), "C01: add_to_nonfull leaves the other key bytes as they were");
  const std::uint64_t live0 = verif_live_allocs();
  n->remove(k, the_db);
  PROP(verif_live_allocs() + 1 == live0, "C01: remove() releases exactly the removed leaf");
  PROP(n->children_count == static_cast<std::uint8_t>(cnt) && slotword(n->children[k]) == 0, "C01: remove() undoes the add");
  PROP(slotword(n->children[q]) == ((q != k && bit(m, q)) ? word(opaque(q)) : 0), "C01: remove() leaves the other key bytes as they were");
  free_aligned(n);
  WITNESS();
}

// ================================================================ I48 / I256 enumeration with a CONCRETE probe byte from the boundary classes
// (0x00, 0x01, 0x7F, 0x80, 0x81, 0xFE, 0xFF) and fully symbolic node content (presence bitmap).  I48 states here are the hole-free ones
// (slot = rank of the key byte); states with holes are covered by n48_find/add/rem above.
static N48* make_48_bitmap(std::uint64_t (&m)[4], unsigned& cnt) {
  for (auto& w : m) w = in_u64();
  N48* n = raw_node<N48>();
  std::uint8_t c = 0;
  for (unsigned i = 0; i < 256; i++) { if (bit(m, i)) { n->child_indexes[i] = c; c++; } else n->child_indexes[i] = N48::empty_child; }
  cnt = c;
  ASSUME(cnt >= 1 && cnt <= 48);
  for (unsigned t = 0; t < 48; t++) n->children.pointer_array[t] = t < cnt ? opaque(t) : np{nullptr};
  n->children_count = static_cast<std::uint8_t>(cnt);
  return n;
}
template <class ND, unsigned K> static void enum_k() {
  std::uint64_t m[4]; unsigned cnt; ND* n;
  if constexpr (std::is_same_v<ND, N48>) n = make_48_bitmap(m, cnt); else n = make_256(m, cnt);
  constexpr std::uint8_t k = static_cast<std::uint8_t>(K);
  const std::uint8_t w = in_u8();    // universally quantified witness byte
  auto fr = n->find_child(static_cast<std::byte>(k));
  PROP((fr.second != nullptr) == bit(m, k), "C01: find_child finds a child iff the key byte is present in the node");
  auto nx = n->next(k); auto pr = n->prior(k);
  if (nx.has_value()) { const unsigned r = static_cast<unsigned>(nx->key_byte); PROP(r > k && bit(m, r) && nx->child_index == r && !(w > k && w < r && bit(m, w)), "C02: next() is the successor in key-byte order"); }
  else PROP(!(w > k && bit(m, w)), "C02: next() ends exactly after the last child");
  if (pr.has_value()) { const unsigned r = static_cast<unsigned>(pr->key_byte); PROP(r < k && bit(m, r) && pr->child_index == r && !(w < k && w > r && bit(m, w)), "C02: prior() is the predecessor in key-byte order"); }
  else PROP(!(w < k && bit(m, w)), "C02: prior() ends exactly before the first child");
  auto ge = n->gte_key_byte(static_cast<std::byte>(k)); auto le = n->lte_key_byte(static_cast<std::byte>(k));
  if (ge.has_value()) { const unsigned r = static_cast<unsigned>(ge->key_byte); PROP(r >= k && bit(m, r) && ge->child_index == r && !(w >= k && w < r && bit(m, w)), "C02: gte_key_byte is the ceiling of the probe"); }
  else PROP(!(w >= k && bit(m, w)), "C02: gte_key_byte finds an entry iff some key byte >= the probe");
  if (le.has_value()) { const unsigned r = static_cast<unsigned>(le->key_byte); PROP(r <= k && bit(m, r) && le->child_index == r && !(w <= k && w > r && bit(m, w)), "C02: lte_key_byte is the floor of the probe"); }
  else PROP(!(w <= k && bit(m, w)), "C02: lte_key_byte finds an entry iff some key byte <= the probe");
  OBSERVE(nx.has_value()); OBSERVE(pr.has_value()); OBSERVE(ge.has_value()); OBSERVE(le.has_value());
  free_aligned(n);
  WITNESS();
}
#define EK(K) HARNESS(n48_enum_##K) { enum_k<N48, 0x##K>(); } HARNESS(n256_enum_##K) { enum_k<N256, 0x##K>(); }
EK(00) EK(01) EK(7F) EK(80) EK(81) EK(FE) EK(FF)
