// C17: qsbr_ptr / qsbr_ptr_span against a shadow model of raw pointers, symbolic operation sequences.
// Assertion-enabled build: qsbr_ptr_base::register_active_ptr / unregister_active_ptr (the out-of-line functions of
// qsbr_ptr.cpp) are replaced by a ghost multiset in qptr_glue.c; after every step the multiset must equal the multiset of
// live non-null wrappers - which is what quiescent()/pause/resume test for emptiness.
#include "verif.hpp"
#include "qsbr_ptr.hpp"
#include <new>
#include <span>
using namespace unodb;
#ifndef ELEM
#define ELEM std::uint8_t          // element type of the wrapped pointers: results must not depend on sizeof(T)
#endif
using E = ELEM;
using W = qsbr_ptr<E>;
#ifndef STEPS
#define STEPS 4
#endif
#ifndef NSLOT
#define NSLOT 3
#endif
#ifndef BUFSZ
#define BUFSZ 8
#endif
#ifndef NBUF
#define NBUF 2
#endif
extern "C" {
std::uint64_t gh_reg_count(void) noexcept;                 // ghost: number of registered pointers
std::uint64_t gh_reg_mult(const void* p) noexcept;         // ghost: multiplicity of p
std::uint64_t gh_reg_errors(void) noexcept;                // ghost: unregister calls for a pointer that was not registered
}
static E bufs[NBUF][BUFSZ];
struct slot { alignas(W) unsigned char mem[sizeof(W)]; bool alive; int b; long off; /* shadow: buffer (-1 = null) and offset */
  W& w() { return *std::launder(reinterpret_cast<W*>(mem)); } };
static E* raw(const slot& s) { return s.b < 0 ? nullptr : &bufs[s.b][0] + s.off; }

static void check_all(slot (&s)[NSLOT]) {
  std::uint64_t live = 0;
  for (int i = 0; i < NSLOT; i++) {
    if (!s[i].alive) continue;
    W& w = s[i].w();
    PROP(w.get() == raw(s[i]), "C17: get() equals the shadow raw pointer after every step");
    if (s[i].b >= 0) {
      live++;
      if (s[i].off >= 0 && s[i].off < BUFSZ) { PROP(&*w == raw(s[i]) && *w == *raw(s[i]), "C17: dereference yields the shadowed element"); PROP(w.operator->() == raw(s[i]), "C17: operator-> yields the shadow pointer"); }
      const long n = static_cast<long>(in_range(0, BUFSZ - 1)) - s[i].off;     // index so that off+n is inside the buffer
      if (s[i].off + n >= 0 && s[i].off + n < BUFSZ) PROP(&w[n] == raw(s[i]) + n, "C17: indexing agrees with raw pointer indexing");
#ifndef NDEBUG
      std::uint64_t same = 0; for (int j = 0; j < NSLOT; j++) if (s[j].alive && s[j].b >= 0 && raw(s[j]) == raw(s[i])) same++;
      PROP(gh_reg_mult(raw(s[i])) == same, "C17: the registry holds each address exactly as often as live wrappers hold it");
#endif
    }
    for (int j = 0; j < NSLOT; j++) {
      if (j == i || !s[j].alive) continue;
      W& v = s[j].w();
      if (s[i].b == s[j].b) {   // same buffer (or both null): all comparisons and the difference are defined
        PROP((w == v) == (s[i].off == s[j].off || s[i].b < 0), "C17: == agrees with the raw pointers");
        if (s[i].b >= 0) {
          PROP((w < v) == (s[i].off < s[j].off) && (w <= v) == (s[i].off <= s[j].off) && (w > v) == (s[i].off > s[j].off) && (w >= v) == (s[i].off >= s[j].off), "C17: ordering comparisons agree with the raw pointers");
          PROP((w - v) == (s[i].off - s[j].off), "C17: difference agrees with the raw pointers");
        }
      } else if (s[i].b < 0 || s[j].b < 0) PROP(!(w == v), "C17: a null wrapper differs from a non-null one");
    }
  }
#ifndef NDEBUG
  PROP(gh_reg_count() == live, "C17: the number of registered addresses equals the number of live non-null wrappers (what quiescent()/pause/resume test)");
  PROP(gh_reg_errors() == 0, "C17: no address is unregistered that was not registered");
#endif
}
static bool in_buf(long off) { return off >= 0 && off <= BUFSZ; }   // one-past-the-end allowed

HARNESS(h_qptr_seq) {
  slot s[NSLOT] = {};
  for (auto& x : s) { x.alive = false; x.b = -1; x.off = 0; }
  for (int step = 0; step < STEPS; step++) {
    const unsigned op = static_cast<unsigned>(in_range(0, 12));
    const unsigned a = static_cast<unsigned>(in_range(0, NSLOT - 1)), c = static_cast<unsigned>(in_range(0, NSLOT - 1));
    const long n = static_cast<long>(in_range(0, 2 * BUFSZ)) - BUFSZ;
    slot& x = s[a]; slot& y = s[c];
    switch (op) {
      case 0: if (!x.alive) { const int b = static_cast<int>(in_range(0, NBUF - 1)); const long o = static_cast<long>(in_range(0, BUFSZ)); new (x.mem) W(&bufs[b][0] + o); x.alive = true; x.b = b; x.off = o; } break;   // from pointer
      case 1: if (!x.alive) { new (x.mem) W(); x.alive = true; x.b = -1; x.off = 0; } break;                                                    // default
      case 2: if (!x.alive && y.alive && a != c) { new (x.mem) W(y.w()); x.alive = true; x.b = y.b; x.off = y.off; } break;                      // copy ctor
      case 3: if (!x.alive && y.alive && a != c) { new (x.mem) W(std::move(y.w())); x.alive = true; x.b = y.b; x.off = y.off; y.b = -1; y.off = 0; } break;   // move ctor
      case 4: if (x.alive && y.alive && a != c) { x.w() = y.w(); x.b = y.b; x.off = y.off; } break;                                              // copy assign over a live wrapper
      case 5: if (x.alive && y.alive && a != c) { x.w() = std::move(y.w()); x.b = y.b; x.off = y.off; y.b = -1; y.off = 0; } break;              // move assign
      case 6: if (x.alive && x.b >= 0 && in_buf(x.off + 1)) { if (n & 1) { ++x.w(); } else { W old = x.w()++; PROP(old.get() == raw(x), "C17: post-increment returns the old position"); } x.off++; } break;
      case 7: if (x.alive && x.b >= 0 && in_buf(x.off - 1)) { if (n & 1) { --x.w(); } else { W old = x.w()--; PROP(old.get() == raw(x), "C17: post-decrement returns the old position"); } x.off--; } break;
      case 8: if (x.alive && x.b >= 0 && in_buf(x.off + n)) { x.w() += n; x.off += n; } break;
      case 9: if (x.alive && x.b >= 0 && in_buf(x.off - n)) { x.w() -= n; x.off -= n; } break;
      case 10: if (x.alive && x.b >= 0 && !y.alive && a != c && in_buf(x.off + n)) { if (n & 1) new (y.mem) W(x.w() + n); else new (y.mem) W(n + x.w()); y.alive = true; y.b = x.b; y.off = x.off + n; } break;   // + (both forms) into a fresh slot
      case 11: if (x.alive && x.b >= 0 && !y.alive && a != c && in_buf(x.off - n)) { new (y.mem) W(x.w() - n); y.alive = true; y.b = x.b; y.off = x.off - n; } break;
      case 12: if (x.alive) { x.w().~W(); x.alive = false; x.b = -1; x.off = 0; } break;                                                         // destroy
    }
    check_all(s);
    OBSERVE(op);
  }
  for (auto& x : s) if (x.alive) { x.w().~W(); x.alive = false; x.b = -1; }
#ifndef NDEBUG
  PROP(gh_reg_count() == 0, "C17: destroying every wrapper empties the registry");
#endif
  WITNESS();
}

HARNESS(h_qptr_span) {
  const std::size_t o = in_range(0, BUFSZ), l = in_range(0, BUFSZ);
  ASSUME(o + l <= BUFSZ);
  std::span<E> src{&bufs[0][0] + o, l};
  qsbr_ptr_span<E> sp{src};
  PROP(sp.size() == src.size(), "C17: span size equals the source span's");
  PROP(sp.begin().get() == src.data() && sp.end().get() == src.data() + src.size(), "C17: span begin/end equal the source span's");
  PROP(static_cast<std::size_t>(sp.end() - sp.begin()) == l, "C17: span yields as many elements as the source");
  qsbr_ptr_span<E> cp{sp}, mv{std::move(cp)}, as; as = mv;
  PROP(as.begin().get() == src.data() && as.size() == l, "C17: copies, moves and assignments of a span keep begin and size");
  std::size_t cnt = 0; for (auto it = as.begin(); !(it == as.end()); ++it) { PROP(&*it == src.data() + cnt, "C17: iterating the wrapper span visits the source elements in order"); cnt++; }
  PROP(cnt == l, "C17: iteration visits exactly size() elements");
  OBSERVE(l);
  WITNESS();
}
